"""Swarm-style generation of run specifications (DESIGN 2.6).

Everything is drawn from the PRNG handed in; which features are on is drawn
first, values second.
"""
import random

from . import gen_cmd
from . import gen_input
from . import reftok

# set by the batch worker: the thorough tier also draws larger inputs, more
# workers and longer step caps (deeper bounds), not only more cases
TIER = 'quick'

PERSONALITIES = [
    'sticky', 'sticky', 'uniform', 'starve:main', 'starve:feeder',
    'starve:w', 'rr'
]


def gen_sched(rng, parallel=True, line=True):
    pers = rng.choice(PERSONALITIES) if parallel else rng.choice(
        ['sticky', 'uniform', 'starve:main'])
    sc = {
        'personality': pers,
        'p_switch': rng.choice([0.02, 0.1, 0.3, 0.6]),
        'p_time': rng.choice([0.0, 0.05, 0.05, 0.3]),
        'lookahead': rng.choice([1, 2, 4, 8, 0]),  # 0 = unbounded
        'vpid_base': rng.choice([1000, 31000, 4194000]),
    }
    if TIER == 'thorough':
        sc['step_cap'] = 1000000
        sc['wall_cap'] = 120.0
    if line and rng.random() < 0.7:
        sc['line_gap'] = rng.choice([[3, 9, 30], [20, 60, 200, 600],
                                     [100, 400, 1500]])
    return sc


def gen_text(rng, small=False, feats=None):
    size = rng.choice([2, 3, 4, 6]) if small else rng.choice(
        [2, 3, 4, 6, 8, 12])
    if TIER == 'thorough' and rng.random() < 0.25:
        size = rng.choice([16, 25, 40])
    return gen_input.gen_script(rng, feats=feats, size=size)


def gen_mutator_opts(rng, registry, p=0.5):
    """An ordered random sequence of mutator / group toggles."""
    opts = []
    if rng.random() > p:
        return opts
    groups = sorted(registry['groups'])
    names = sorted(registry['options'])
    n = rng.choice([1, 1, 2, 3, 5])
    for _ in range(n):
        k = rng.random()
        if k < 0.15:
            opts.append('--disable-all')
        elif k < 0.45:
            g = rng.choice(groups)
            opts.append(rng.choice([f'--{g}', f'--no-{g}']))
        else:
            o = rng.choice(names)
            opts.append(rng.choice([f'--{o}', f'--no-{o}', f'--no-{o}']))
    return opts


def base_spec(rng,
              strategies=('ddmin', 'hierarchical', 'hybrid'),
              jobs=(1, 2, 3, 4, 8),
              small=False,
              model_style=None,
              feats=None,
              out_modes=('', '', '--pretty-print', '--wrap-lines'),
              text=None,
              p_idc=0.3):
    if text is None:
        text = gen_text(rng, small=small, feats=feats)
    toks = reftok.tokenize(text)
    model = gen_cmd.gen_model(rng, toks, style=model_style)
    strat = rng.choice(list(strategies))
    j = rng.choice(list(jobs))
    if TIER == 'thorough' and max(jobs) > 1 and rng.random() < 0.15:
        j = rng.choice([6, 12, 16])
    opts = []
    if strat != 'hybrid' or rng.random() < 0.5:
        opts += ['--strategy', strat]
    if j != 1 or rng.random() < 0.5:
        opts += ['-j', str(j)]
    om = rng.choice(list(out_modes))
    if om:
        opts.append(om)
    if rng.random() < 0.1:
        opts += ['--replace-by-variable-mode', 'dec']
    if rng.random() < 0.03:
        opts.append('--dump-diffs')
    if rng.random() < 0.02:
        opts.append('--dump-config')
    v = rng.random()
    if v < 0.1:
        opts.append('-v')
    elif v < 0.15:
        opts.append('-vv')
    elif v < 0.2:
        opts.append('-q')
    spec = {
        'seed': rng.randrange(1 << 62),
        'input': text,
        'ext': rng.choice(['.smt2', '.smt2', '.smt', '']),
        'opts': opts,
        'cmd_args': rng.choice([[], [], ['--arg'], ['-a', 'b c']]),
        'model': model,
        'model_cc': None,
        'sched': gen_sched(rng, parallel=j > 1),
        'faults': {},
        'launcher': 'main',
        'prlimit': rng.random() < 0.8,
        'strategy': strat,
        'jobs': j,
    }
    # pre-emption points at accesses to the shared node-id counter (a
    # multiprocessing.Value used by all processes); drawn from a generator of
    # their own so that the rest of the case does not depend on them
    r2 = random.Random(spec['seed'] * 7 + 1)
    if r2.random() < p_idc:
        spec['sched']['idc_points'] = sorted({
            int(10**r2.uniform(0.5, 4.5))
            for _ in range(r2.choice([1, 2, 3, 6, 12, 24]))
        })
        if r2.random() < 0.4:
            # dense: every n-th access
            spec['sched']['idc_every'] = r2.choice([5, 17, 101, 1009])
    return spec


def spec_summary(spec):
    """Short human-readable descriptor for evidence samples."""
    return {
        'opts': spec.get('opts'),
        'input': spec.get('input'),
        'model_rules': spec['model']['rules'],
        'sched': spec.get('sched'),
        'faults': spec.get('faults'),
        'seed': spec.get('seed'),
    }
