"""Sensitivity self-test: apply each patch of /verif/mutants (or a given
patch) to a scratch copy of the repository, point the simulator at it and
expect the named property's check to report a violation.

  mutants.py [--budget S] [--keep] [patch.diff ...] [--prop Cxx]
"""
import json
import os
import re
import shutil
import subprocess
import sys
import tempfile
import time

HERE = os.path.dirname(os.path.abspath(__file__))
VERIF = os.path.dirname(HERE)
REPO = os.environ.get('DDSMT_SIM_REPO', '/repo')


def scratch_copy(dst):
    subprocess.run(['git', 'clone', '-q', '--shared', REPO, dst], check=True)
    subprocess.run(['rsync', '-a', '--exclude', '.git', '--exclude',
                    '__pycache__', REPO + '/', dst + '/'], check=True)


def header(path):
    meta = {}
    with open(path) as f:
        for ln in f:
            m = re.match(r'#\s*(\w+):\s*(.*)', ln)
            if m:
                meta[m.group(1)] = m.group(2).strip()
            elif not ln.startswith('#'):
                break
    return meta


def run_one(patch, budget, props=None, tier='quick'):
    meta = header(patch)
    props = props or meta.get('property', '').replace(',', ' ').split()
    base = '/dev/shm' if os.path.isdir('/dev/shm') else None
    wd = tempfile.mkdtemp(prefix='dst-mut-', dir=base)
    res = {}
    try:
        repo = os.path.join(wd, 'repo')
        scratch_copy(repo)
        r = subprocess.run(['git', '-C', repo, 'apply', patch],
                           capture_output=True, text=True)
        if r.returncode != 0:
            # written against an earlier tree (a later fix: commit touched
            # the same lines): merge it
            r = subprocess.run(['git', '-C', repo, 'apply', '--3way', patch],
                               capture_output=True, text=True)
            left = subprocess.run(['git', '-C', repo, 'diff', '--name-only',
                                   '--diff-filter=U'], capture_output=True,
                                  text=True).stdout.strip()
            if r.returncode != 0 or left:
                return {'error': 'patch does not apply: ' + r.stderr[-300:]}
        for pid in props:
            env = dict(os.environ)
            env['DDSMT_SIM_REPO'] = repo
            env['DST_OUT_DIR'] = os.path.join(wd, 'out')
            env['DST_BUDGET'] = str(budget)
            env['DST_NO_MINIMISE'] = '1'
            t0 = time.time()
            r = subprocess.run([sys.executable, os.path.join(HERE, 'cli.py'),
                                'check', pid, '--tier', tier],
                               env=env, cwd=VERIF, capture_output=True,
                               text=True)
            sigs = re.findall(r'^  (\S+): ', r.stdout, re.M)
            res[pid] = {
                'exit': r.returncode,
                'detected': r.returncode == 1 and 'VIOLATION' in r.stdout,
                'signatures': sigs,
                'wall_s': round(time.time() - t0, 1),
                'tail': r.stdout[-600:] if r.returncode not in (0, 1) else '',
                'summary': ' '.join(re.findall(r'^\[dst\] \S+ \w+: (.*)$',
                                               r.stdout, re.M))[:200],
            }
    finally:
        shutil.rmtree(wd, ignore_errors=True)
    return res


def main(argv):
    budget = 20
    props = None
    patches = []
    i = 0
    while i < len(argv):
        if argv[i] == '--budget':
            budget = int(argv[i + 1]); i += 2
        elif argv[i] == '--prop':
            props = argv[i + 1].split(','); i += 2
        else:
            patches.append(argv[i]); i += 1
    if not patches:
        d = os.path.join(VERIF, 'mutants')
        patches = sorted(os.path.join(d, f) for f in os.listdir(d)
                         if f.endswith('.diff'))
    ok = True
    out = {}
    for p in patches:
        r = run_one(os.path.abspath(p), budget, props)
        out[os.path.basename(p)] = r
        print(os.path.basename(p), json.dumps(r))
        sys.stdout.flush()
        if 'error' in r or not all(x.get('detected') for x in r.values()):
            ok = False
    return 0 if ok else 1


if __name__ == '__main__':
    sys.exit(main(sys.argv[1:]))
