"""Self-tests of the machinery.

determinism [n] [props...]: every case index < n of every property is run in
two fresh interpreters; the trace digests must be identical.  A third
interpreter with another PYTHONHASHSEED is compared for information.
"""
import json
import os
import random
import subprocess
import sys
import time

HERE = os.path.dirname(os.path.abspath(__file__))
VERIF = os.path.dirname(HERE)


def digests_main(props, n, stride, offset, out):
    from . import registry, batch, sim
    res = {}
    for pid in props:
        prop = registry.get(pid)
        for index in range(offset, n, stride):
            rng = random.Random(batch.case_seed(0, pid, index))
            case = prop.gen(rng, 'quick')
            case['index'] = index
            case['verif_seed'] = 0
            if 'case_budget' in case:
                # wall-clock caps bound how much of a case is explored; the
                # self-test needs the same amount in both interpreters
                case['case_budget'] = 10**9
                case['max_points'] = min(case.get('max_points', 12), 12)
            try:
                v = prop.run(case)
                res[f'{pid}/{index}'] = [v.digests, sorted(
                    x['sig'] for x in v.violations), v.aborted]
            except Exception as e:
                res[f'{pid}/{index}'] = ['EXC ' + repr(e)]
            sim.cleanup_between_runs()
    with open(out, 'w') as f:
        json.dump(res, f)


def main(argv):
    if argv and argv[0] == '_digests':
        props = argv[1].split(',')
        digests_main(props, int(argv[2]), int(argv[3]), int(argv[4]), argv[5])
        return 0
    if not argv or argv[0] != 'determinism':
        print(__doc__)
        return 2
    from . import registry
    n = int(argv[1]) if len(argv) > 1 else 32
    props = argv[2:] or registry.ids()
    import tempfile
    import shutil
    wd = tempfile.mkdtemp(prefix='dst-selftest-')
    t0 = time.time()
    stride = 8
    procs = []
    try:
        for variant, hs in (('a', '0'), ('b', '0'), ('h', '4242')):
            for off in range(stride):
                out = os.path.join(wd, f'{variant}{off}.json')
                env = dict(os.environ)
                env['PYTHONHASHSEED'] = hs
                env['DST_KEEP_HASHSEED'] = '1'
                env['PYTHONDONTWRITEBYTECODE'] = '1'
                p = subprocess.Popen([
                    sys.executable,
                    os.path.join(HERE, 'cli.py'), 'selftest', '_digests',
                    ','.join(props),
                    str(n),
                    str(stride),
                    str(off), out
                ],
                                     env=env,
                                     cwd=VERIF,
                                     stdout=subprocess.DEVNULL,
                                     stderr=subprocess.PIPE)
                procs.append((variant, off, p, out))
        data = {'a': {}, 'b': {}, 'h': {}}
        for variant, off, p, out in procs:
            try:
                _, err = p.communicate(timeout=1200)
            except subprocess.TimeoutExpired:
                p.kill()
                print(f'SELFTEST-FAIL determinism: worker {variant}{off} timed out')
                return 2
            if p.returncode != 0 or not os.path.exists(out):
                print(f'SELFTEST-FAIL determinism: worker {variant}{off} '
                      f'exit {p.returncode}: {err.decode()[-800:]}')
                return 2
            with open(out) as f:
                data[variant].update(json.load(f))
        def timed(x):
            # runs cut by a wall-clock cap are inconclusive by construction
            return x is not None and len(x) > 2 and x[2] in ('wallcap', 'hang')

        bad = [k for k in data['a'] if data['a'][k] != data['b'].get(k)
               and not timed(data['a'][k]) and not timed(data['b'].get(k))]
        hs = [k for k in data['a'] if data['a'][k] != data['h'].get(k)
              and not timed(data['a'][k]) and not timed(data['h'].get(k))]
        exc = [k for k, v in data['a'].items() if str(v[0]).startswith('EXC')]
        print(f'[dst] determinism: {len(data["a"])} cases x 2 interpreters, '
              f'{len(bad)} diverged; {len(hs)} differ under another '
              f'PYTHONHASHSEED (informational); {len(exc)} harness exceptions; '
              f'{time.time() - t0:.0f}s')
        for k in bad[:10]:
            print('  DIVERGED', k, data['a'][k], data['b'].get(k))
        for k in exc[:5]:
            print('  EXC', k, data['a'][k])
        for k in hs[:5]:
            print('  hashseed-sensitive', k)
        return 1 if bad or exc else 0
    finally:
        shutil.rmtree(wd, ignore_errors=True)
