"""Reference SMT-LIB 2.6 tokenizer (independent of ddsmt.nodeio).

White space: space, tab, LF, CR.  Comments (``;`` to end of line) are dropped.
String literals ("..." with "" as escape) and quoted symbols (|...|) are single
tokens; parentheses are tokens; everything else is a maximal run of characters
that are not white space, parentheses, ``;``, ``"`` or ``|`` starts.
"""
import hashlib

_WS = ' \t\n\r'


_MEMO = {}


def tokenize(text):
    """Token sequence of a text (memoised for the few texts seen last: the
    command model and the recorder tokenise the same candidate)."""
    r = _MEMO.get(text)
    if r is None:
        r = _tokenize(text)
        if len(_MEMO) >= 8:
            _MEMO.pop(next(iter(_MEMO)))
        _MEMO[text] = r
    return r


def _tokenize(text):
    toks = []
    i = 0
    n = len(text)
    while i < n:
        c = text[i]
        if c in _WS:
            i += 1
        elif c == ';':
            while i < n and text[i] != '\n':
                i += 1
        elif c == '(' or c == ')':
            toks.append(c)
            i += 1
        elif c == '"':
            j = i + 1
            while True:
                if j >= n:
                    toks.append(text[i:])  # unterminated
                    return tuple(toks)
                if text[j] == '"':
                    if j + 1 < n and text[j + 1] == '"':
                        j += 2
                        continue
                    break
                j += 1
            toks.append(text[i:j + 1])
            i = j + 1
        elif c == '|':
            j = text.find('|', i + 1)
            if j < 0:
                toks.append(text[i:])
                return tuple(toks)
            toks.append(text[i:j + 1])
            i = j + 1
        else:
            j = i
            while j < n and text[j] not in _WS and text[j] not in '();"|':
                j += 1
            if j == i:
                j = i + 1
            toks.append(text[i:j])
            i = j
    return tuple(toks)


def digest(tokens):
    return hashlib.blake2b('\x00'.join(tokens).encode('utf-8', 'replace'),
                           digest_size=8).hexdigest()


def tree_tokens(exprs):
    """Token sequence of a ddsmt node list / node, read from ``.data`` only
    (never constructs nodes).  Comments and empty leaves are dropped, as the
    renderers do for the purpose of the token sequence."""
    out = []
    if hasattr(exprs, 'data'):
        st = [exprs]
    else:
        st = list(reversed(exprs))
    while st:
        e = st.pop()
        if e is None:
            out.append(')')
            continue
        d = e.data
        if isinstance(d, str):
            if d and d[0] != ';':
                out.append(d)
        else:
            out.append('(')
            st.append(None)
            st.extend(reversed(d))
    return tuple(out)


def tree_both(exprs):
    """(tree_tokens, tree_struct) of a node list in one traversal."""
    toks = []
    out = []
    st = [exprs] if hasattr(exprs, 'data') else list(reversed(exprs))
    while st:
        e = st.pop()
        if e is None:
            out.append(')')
            toks.append(')')
            continue
        d = e.data
        if isinstance(d, str):
            out.append('L' + d)
            if d and d[0] != ';':
                toks.append(d)
        else:
            out.append('(')
            toks.append('(')
            st.append(None)
            st.extend(reversed(d))
    return tuple(toks), tuple(out)


def tree_struct(exprs):
    """Full structure of a ddsmt node list: every leaf verbatim (comments and
    empty leaves included).  Two inputs are the same input for the purpose of
    loop detection iff their structures are equal (as ddSMT's own
    NodeLoopChecker compares them)."""
    out = []
    st = [exprs] if hasattr(exprs, 'data') else list(reversed(exprs))
    while st:
        e = st.pop()
        if e is None:
            out.append(')')
            continue
        d = e.data
        if isinstance(d, str):
            out.append('L' + d)
        else:
            out.append('(')
            st.append(None)
            st.extend(reversed(d))
    return tuple(out)


def balanced(tokens):
    depth = 0
    for t in tokens:
        if t == '(':
            depth += 1
        elif t == ')':
            depth -= 1
            if depth < 0:
                return False
    return depth == 0


def top_level(tokens):
    """Split a balanced token sequence into top-level items (tuples)."""
    items = []
    cur = []
    depth = 0
    for t in tokens:
        cur.append(t)
        if t == '(':
            depth += 1
        elif t == ')':
            depth -= 1
        if depth <= 0:
            items.append(tuple(cur))
            cur = []
            depth = 0
    if cur:
        items.append(tuple(cur))
    return items
