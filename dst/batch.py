"""Seeded search over many simulated runs, on all cores.

parent:  spawns N worker interpreters (PID-tracked, wall-clock limited),
         aggregates their reports, classifies violations against
         known_findings.json, minimises and replay-verifies new ones, writes
         the evidence file and prints VIOLATION / KNOWN-FINDING lines.
worker:  for index = wid, wid+N, ...: rng = Random(H(VERIF_SEED, prop, index));
         case = prop.gen(rng); verdict = prop.run(case).
"""
import collections
import fnmatch
import hashlib
import json
import os
import random
import subprocess
import sys
import time

HERE = os.path.dirname(os.path.abspath(__file__))
VERIF = os.path.dirname(HERE)
PY = sys.executable

TIERS = {
    # seconds of search per worker, max cases per worker
    'quick': {
        'budget': 40,
        'max_cases': 10**9,
        'min_budget': 60
    },
    'thorough': {
        'budget': 720,
        'max_cases': 10**9,
        'min_budget': 180
    },
}


def case_seed(verif_seed, prop, index):
    h = hashlib.blake2b(f'{verif_seed}/{prop}/{index}'.encode(),
                        digest_size=8).digest()
    return int.from_bytes(h, 'big')


def load_known():
    p = os.path.join(VERIF, 'known_findings.json')
    if not os.path.exists(p):
        return []
    with open(p) as f:
        return json.load(f).get('findings', [])


def match_known(known, prop, sig):
    for k in known:
        if k.get('property') != prop or k.get('status') != 'open':
            continue
        if fnmatch.fnmatchcase(sig, k['signature']):
            return k
    return None


# ---------------------------------------------------------------------------
# worker
# ---------------------------------------------------------------------------


def worker_main(prop_id, tier, wid, nworkers, verif_seed, budget, max_cases,
                outpath):
    import faulthandler
    faulthandler.enable()
    faulthandler.dump_traceback_later(budget * 3 + 240, exit=True)
    from . import registry
    from . import sim
    from . import workload
    workload.TIER = tier
    prop = registry.get(prop_id)
    t0 = time.time()
    rep = {
        'wid': wid,
        'cases': 0,
        'evaluations': 0,
        'runs': 0,
        'nontrivial_keys': [],
        'keys': 0,
        'probes': collections.Counter(),
        'faults': collections.Counter(),
        'aborted': collections.Counter(),
        'aborted_cases': [],
        'violations': [],
        'viol_counts': collections.Counter(),
        'samples': [],
        'sim_time': 0.0,
        'steps': 0,
        'first_index': None,
        'last_index': None,
        'harness_errors': [],
        'extra': collections.Counter(),
        'table': collections.Counter(),
    }
    keys = set()
    ntkeys = set()
    k = 0
    per_sig = collections.Counter()
    last_dump = time.time()
    idx_fn = getattr(prop, 'case_index', None)
    rep['custom'] = []
    while k < max_cases and time.time() - t0 < budget:
        index = idx_fn(wid, k, nworkers) if idx_fn else wid + k * nworkers
        k += 1
        seed = case_seed(verif_seed, prop_id, index)
        rng = random.Random(seed)
        print(f'case {index}', flush=True)
        if time.time() - last_dump > 5:
            # survive a crash of this interpreter: keep a recent report
            _dump(rep, keys, ntkeys, t0, outpath, False)
            last_dump = time.time()
        try:
            prop.current_index = index
            case = prop.gen(rng, tier)
            case['index'] = index
            case['verif_seed'] = verif_seed
            case['wid'] = wid
            case['nworkers'] = nworkers
            v = prop.run(case)
        except Exception as e:
            import traceback
            rep['harness_errors'].append({
                'index': index,
                'error': repr(e),
                'tb': traceback.format_exc()[-2000:]
            })
            if len(rep['harness_errors']) > 20:
                break
            continue
        finally:
            sim.cleanup_between_runs()
        if rep['first_index'] is None:
            rep['first_index'] = index
        rep['last_index'] = index
        rep['cases'] += 1
        rep['evaluations'] += v.evaluations
        rep['runs'] += v.runs
        rep['sim_time'] += v.sim_time
        rep['steps'] += v.steps
        rep['probes'].update(v.probes)
        rep['faults'].update(v.faults)
        for kx, vx in v.extra.items():
            if isinstance(vx, (int, float)):
                rep['extra'][kx] += vx
            else:
                rep['extra'][f'{kx}={vx}'] += 1
        if v.aborted:
            rep['aborted'][v.aborted] += 1
            if len(rep['aborted_cases']) < 40:
                rep['aborted_cases'].append([index, v.aborted])
        cu = getattr(v, 'custom', None)
        if cu is not None:
            rep['custom'].append(cu)
        tb = getattr(v, 'table', None)
        if tb:
            rep['table'].update(tb)
        if v.key is not None:
            keys.add(v.key)
            multi = getattr(v, 'ntkeys', None)
            if multi:
                ntkeys.update('/'.join(map(str, x)) for x in multi)
            elif v.nontrivial:
                ntkeys.add(v.key)
        if v.sample is not None and len(rep['samples']) < 2 and (
                v.nontrivial or not rep['samples']):
            s = dict(v.sample)
            s['index'] = index
            rep['samples'].append(s)
        for viol in v.violations:
            rep['viol_counts'][viol['sig']] += 1
            if per_sig[viol['sig']] < 2:
                per_sig[viol['sig']] += 1
                focus = getattr(prop, 'focus', None)
                rep['violations'].append({
                    'index': index,
                    'violation': viol,
                    'case': focus(case, viol) if focus else case
                })
    _dump(rep, keys, ntkeys, t0, outpath, True)


def _dump(rep, keys, ntkeys, t0, outpath, final):
    out = dict(rep)
    out['keys'] = sorted(keys)
    out['nontrivial_keys'] = sorted(ntkeys)
    out['wall'] = time.time() - t0
    out['final'] = final
    for c in ('probes', 'faults', 'aborted', 'viol_counts', 'extra', 'table'):
        out[c] = dict(rep[c])
    tmp = outpath + '.tmp'
    with open(tmp, 'w') as f:
        json.dump(out, f)
    os.replace(tmp, outpath)


# ---------------------------------------------------------------------------
# parent
# ---------------------------------------------------------------------------


def _env(extra=None):
    env = dict(os.environ)
    env['PYTHONHASHSEED'] = '0'
    env['PYTHONDONTWRITEBYTECODE'] = '1'
    env['PYTHONUTF8'] = '1'
    env.setdefault('DDSMT_SIM_REPO', '/repo')
    if extra:
        env.update(extra)
    return env


def run_workers(prop_id, tier, nworkers, verif_seed, budget, max_cases,
                workdir, env_extra_per_worker=None):
    procs = []
    for w in range(nworkers):
        out = os.path.join(workdir, f'w{w}.json')
        log = open(os.path.join(workdir, f'w{w}.log'), 'w')
        extra = env_extra_per_worker(w) if env_extra_per_worker else None
        p = subprocess.Popen([
            PY,
            os.path.join(HERE, 'cli.py'), 'worker', prop_id, tier,
            str(w),
            str(nworkers),
            str(verif_seed),
            str(budget),
            str(max_cases), out
        ],
                             stdout=log,
                             stderr=subprocess.STDOUT,
                             env=_env(extra),
                             cwd=VERIF)
        procs.append((p, out, log))
    deadline = time.time() + budget * 3 + 300
    reports = []
    errors = []
    for p, out, log in procs:
        try:
            p.wait(timeout=max(1, deadline - time.time()))
        except subprocess.TimeoutExpired:
            p.kill()
            p.wait()
            errors.append(f'worker timeout (pid {p.pid})')
        log.close()
        if os.path.exists(out):
            with open(out) as f:
                rp = json.load(f)
            reports.append(rp)
            if not rp.get('final'):
                errors.append(f'worker {os.path.basename(out)} died (exit '
                              f'{p.returncode}) after case {rp.get("last_index")}; '
                              f'its last periodic report is used')
        else:
            tail = ''
            lastcase = '?'
            try:
                with open(log.name) as f:
                    txt = f.read()
                tail = txt[-3000:]
                cl = [ln for ln in txt.splitlines() if ln.startswith('case ')]
                lastcase = cl[-1] if cl else '?'
            except OSError:
                pass
            errors.append(f'worker {os.path.basename(out)} produced no report '
                          f'(exit {p.returncode}), last {lastcase}: {tail}')
    return reports, errors


def nworkers_default():
    try:
        n = len(os.sched_getaffinity(0))
    except AttributeError:
        n = os.cpu_count() or 1
    return max(1, min(16, n))


def check(prop_id, tier, budget=None, nworkers=None, max_cases=None):
    from . import registry
    prop = registry.get(prop_id)
    t0 = time.time()
    verif_seed = int(os.environ.get('VERIF_SEED', '0') or 0)
    cfg = TIERS[tier]
    budget = budget if budget is not None else int(
        os.environ.get('DST_BUDGET', prop.budget.get(tier, cfg['budget'])))
    nworkers = nworkers or int(os.environ.get('DST_WORKERS', nworkers_default()))
    max_cases = max_cases or cfg['max_cases']
    import tempfile
    import shutil
    workdir = tempfile.mkdtemp(prefix=f'dst-{prop_id}-', dir='/dev/shm' if os.path.isdir('/dev/shm') else None)
    try:
        hook = getattr(prop, 'worker_env', None)
        reports, errors = run_workers(prop_id, tier, nworkers, verif_seed,
                                      budget, max_cases, workdir, hook)
        return _finish(prop, prop_id, tier, verif_seed, reports, errors, t0,
                       nworkers, budget, workdir)
    finally:
        shutil.rmtree(workdir, ignore_errors=True)


def _finish(prop, prop_id, tier, verif_seed, reports, errors, t0, nworkers,
            budget, workdir):
    known = load_known()
    agg = {
        'cases': 0,
        'evaluations': 0,
        'runs': 0,
        'sim_time': 0.0,
        'steps': 0
    }
    probes = collections.Counter()
    faults = collections.Counter()
    aborted = collections.Counter()
    aborted_cases = []
    viol_counts = collections.Counter()
    extra = collections.Counter()
    table = collections.Counter()
    keys = set()
    ntkeys = set()
    samples = []
    viols = []
    first = None
    last = None
    for r in reports:
        for k in agg:
            agg[k] += r[k]
        probes.update(r['probes'])
        faults.update(r['faults'])
        aborted.update(r['aborted'])
        aborted_cases.extend(r.get('aborted_cases', []))
        viol_counts.update(r['viol_counts'])
        extra.update(r['extra'])
        table.update(r.get('table', {}))
        keys.update(r['keys'])
        ntkeys.update(r['nontrivial_keys'])
        samples.extend(r['samples'])
        viols.extend(r['violations'])
        for he in r['harness_errors']:
            errors.append(f"case {he['index']}: {he['error']}\n{he['tb']}")
        if r['first_index'] is not None:
            first = r['first_index'] if first is None else min(
                first, r['first_index'])
            last = r['last_index'] if last is None else max(
                last, r['last_index'])
    # post-processing across workers (e.g. C18 compares variants)
    post = getattr(prop, 'post', None)
    if post is not None:
        more = post(reports)
        for mv in more:
            viol_counts[mv['violation']['sig']] += 1
            viols.append(mv)

    # classify violations
    by_sig = collections.OrderedDict()
    for vv in sorted(viols, key=lambda x: x['index']):
        by_sig.setdefault(vv['violation']['sig'], []).append(vv)
    known_met = []
    new = []
    for sig, lst in by_sig.items():
        k = match_known(known, prop_id, sig)
        if k is not None:
            known_met.append((k, sig, viol_counts[sig], lst[0]))
        else:
            new.append((sig, lst))
    lines = []
    exit_code = 0
    outroot = os.environ.get('DST_OUT_DIR') or VERIF
    replay_dir = os.path.join(outroot, 'replays')
    os.makedirs(replay_dir, exist_ok=True)
    seen_known = set()
    for k, sig, cnt, ex in known_met:
        if k['signature'] in seen_known:
            continue
        seen_known.add(k['signature'])
        lines.append(f"KNOWN-FINDING: property={prop_id} {k['what']} "
                     f"[signature {k['signature']}; met {cnt}x in this run]")
    nviol_new = 0
    for sig, lst in new:
        nviol_new += viol_counts[sig]
        vv = lst[0]
        path = os.path.join(
            replay_dir,
            f"{prop_id}-{hashlib.blake2b(sig.encode(), digest_size=4).hexdigest()}-{vv['index']}.json"
        )
        doc = {
            'version': 1,
            'property': prop_id,
            'violation': vv['violation'],
            'case': vv['case'],
            'verif_seed': verif_seed,
            'index': vv['index'],
            'minimised': False,
        }
        with open(path, 'w') as f:
            json.dump(doc, f, indent=1)
        # minimise + verify in fresh interpreters
        if os.environ.get('DST_NO_MINIMISE'):
            note = 'not minimised (DST_NO_MINIMISE)'
        else:
            note = minimise_and_verify(path, tier)
        lines.append(f'VIOLATION property={prop_id} replay={path}')
        lines.append(f"  {sig}: {vv['violation']['msg']} ({note})")
        exit_code = 1
    nh = sum(c for k, c in aborted.items()
             if str(k).startswith('harness'))
    nothing_evaluated = False
    if exit_code == 0 and agg['cases'] and nh * 2 > agg['cases']:
        nothing_evaluated = True
        # most runs could not be exercised: not a verdict
        errors = list(errors) + [
            f'{nh} of {agg["cases"]} cases ended with a harness problem: ' +
            ', '.join(sorted(str(k) for k in aborted
                             if str(k).startswith('harness')))[:300]]
    if exit_code == 0 and agg['cases'] >= 50 and not ntkeys:
        nothing_evaluated = True
        # every oracle precondition failed (e.g. no golden run recognised):
        # nothing was evaluated, which is not "held on everything explored"
        errors = list(errors) + [
            f'none of the {agg["cases"]} cases was non-trivial by the '
            f'property\'s rule: the oracle evaluated nothing']
    if errors:
        for e in errors[:5]:
            lines.append('HARNESS-ERROR ' + e.replace('\n', '\n    '))
        if exit_code == 0 and (agg['cases'] == 0 or nothing_evaluated
                               or len(errors) > max(3, agg['cases'] // 50)):
            exit_code = 2
    wall = time.time() - t0
    ev = {
        'property_id': prop_id,
        'tier': tier,
        'seed': verif_seed,
        'level': prop.level,
        'coverage': {
            'evaluations': agg['evaluations'],
            'distinct_nontrivial': len(ntkeys),
            'rule': prop.rule,
            'samples': samples[:4] or [{
                'note': 'no sample'
            }],
            'cases': agg['cases'],
            'simulated_runs': agg['runs'],
            'runs_per_hour': int(agg['runs'] / max(wall, 1e-9) * 3600),
            'case_index_range': [first, last],
            'seed_derivation': 'case rng = Random(blake2b(VERIF_SEED/property/index))',
            'sim_time_s': round(agg['sim_time'], 2),
            'yield_points': agg['steps'],
            'distinct_schedules': len(keys),
            'fault_counts_fired': dict(sorted(faults.items())),
            'probe_counts': dict(sorted(probes.items())),
            'aborted_runs': dict(sorted(aborted.items())),
            'aborted_case_indices': sorted(aborted_cases)[:60],
            'extra': dict(sorted(extra.items())),
            'coverage_table_classes': len(table),
            'coverage_table': dict(sorted(table.items())[:400]),
            'real_components': prop.real_components,
            'stub_components': prop.stub_components,
            'attribution_missing_probes': extra.get('missing_probes', 0),
            'known_findings_met': [{
                'signature': k['signature'],
                'count': cnt
            } for k, sig, cnt, ex in known_met],
            'new_violation_signatures': [s for s, _ in new],
            'harness_errors': len(errors),
            'workers': nworkers,
            'budget_s_per_worker': budget,
            'exhaustive': False,
        },
        'assumptions': prop.assumptions if hasattr(prop, 'assumptions') else [],
        'wall_s': round(wall, 2),
        'violations': nviol_new,
    }
    evdir = os.path.join(outroot, 'evidence')
    os.makedirs(evdir, exist_ok=True)
    with open(os.path.join(evdir, f'{prop_id}.json'), 'w') as f:
        json.dump(ev, f, indent=1, default=str)
    print(f'[dst] {prop_id} {tier}: {agg["cases"]} cases, {agg["runs"]} '
          f'simulated runs, {len(ntkeys)} distinct non-trivial, '
          f'{agg["sim_time"]:.0f}s simulated, wall {wall:.0f}s, '
          f'aborted {dict(aborted)}, harness errors {len(errors)}')
    for ln in lines:
        print(ln)
    sys.stdout.flush()
    return exit_code


def minimise_and_verify(path, tier):
    budget = 60 if tier == 'quick' else 300
    try:
        r = subprocess.run(
            [PY, os.path.join(HERE, 'cli.py'), 'minimise', path,
             str(budget)],
            env=_env(),
            cwd=VERIF,
            capture_output=True,
            text=True,
            timeout=budget * 2 + 120)
        note = (r.stdout.strip().splitlines() or ['?'])[-1]
    except subprocess.TimeoutExpired:
        note = 'minimiser timed out; replay file is unminimised'
    try:
        r = subprocess.run([PY, os.path.join(HERE, 'cli.py'), 'replay', path],
                           env=_env(),
                           cwd=VERIF,
                           capture_output=True,
                           text=True,
                           timeout=600)
        ok = r.returncode == 1 and 'VIOLATION' in r.stdout
        note += '; replay in a fresh interpreter ' + (
            'reproduces it' if ok else 'DID NOT reproduce it')
    except subprocess.TimeoutExpired:
        note += '; replay timed out'
    return note
