"""Seeded generator of SMT-LIB(-like) scripts.

Terms are generated "mostly well-sorted" so that the sort-driven mutators of
ddSMT fire; optional damage makes them ill-formed (needed for C04).  Swarm
style: per script a random subset of theories/features is enabled first.
"""
import os

BV_WIDTHS = [1, 4, 8, 16]


class Gen:

    def __init__(self, rng, feats=None, size=None):
        self.rng = rng
        all_feats = [
            'int', 'real', 'bv', 'str', 'arr', 'fp', 'dt', 'let', 'quant',
            'deffun', 'annot', 'comments', 'quoted', 'longtok', 'empty',
            'csa', 'recfun', 'uf', 'named', 'unicode'
        ]
        if feats is None:
            k = rng.randint(2, 7)
            feats = set(rng.sample(all_feats, k))
            if not feats & {'int', 'real', 'bv', 'str'}:
                feats.add(rng.choice(['int', 'bv']))
        self.feats = set(feats)
        self.size = size if size is not None else rng.choice(
            [3, 5, 8, 12, 18])
        self.vars = {}  # sort -> [names]
        self.funs = []  # (name, [argsorts], ret)
        self.decls = []
        self.defs = []
        self.dt_done = False
        self.nsym = 0

    # -- symbols ---------------------------------------------------------------
    def fresh(self, base):
        self.nsym += 1
        r = self.rng
        if 'unicode' in self.feats and 'quoted' in self.feats and r.random() < 0.2:
            return f'|{base}\u00e9 \u4e16{self.nsym}|'
        if 'quoted' in self.feats and r.random() < 0.25:
            body = r.choice([
                f'{base} {self.nsym}', f'{base}({self.nsym})',
                f'{base};{self.nsym}', f'{base}{self.nsym}'
            ])
            return f'|{body}|'
        if 'longtok' in self.feats and r.random() < 0.15:
            return f'{base}{self.nsym}_' + 'long' * r.choice([19, 21, 25])
        # names that are prefixes of each other on purpose
        return r.choice([f'{base}{self.nsym}', f'{base}{self.nsym}',
                         f'{base}{self.nsym}x', f'v{self.nsym}'])

    def sort_pool(self):
        s = ['Bool']
        f = self.feats
        if 'int' in f:
            s.append('Int')
        if 'real' in f:
            s.append('Real')
        if 'bv' in f:
            s += [f'(_ BitVec {w})' for w in self.rng.sample(BV_WIDTHS, 2)]
        if 'str' in f:
            s.append('String')
        if 'arr' in f:
            s.append('(Array Int Int)' if 'int' in f else
                     '(Array Bool Bool)')
        if 'fp' in f:
            s += ['(_ FloatingPoint 8 24)', 'RoundingMode']
            if self.rng.random() < 0.5:
                s.append('Float32')
        if 'dt' in f and self.dt_done:
            s.append('Color')
        return s

    def declare(self, sort):
        name = self.fresh(self.rng.choice(['x', 'y', 'a', 'b']))
        if self.rng.random() < 0.5:
            self.decls.append(f'(declare-const {name} {sort})')
        else:
            self.decls.append(f'(declare-fun {name} () {sort})')
        self.vars.setdefault(sort, []).append(name)
        return name

    def var(self, sort):
        vs = self.vars.get(sort)
        if vs and self.rng.random() < 0.85:
            return self.rng.choice(vs)
        return self.declare(sort)

    # -- terms -----------------------------------------------------------------
    def const(self, sort):
        r = self.rng
        if sort == 'Bool':
            return r.choice(['true', 'false'])
        if sort == 'Int':
            return r.choice(['0', '1', '2', '7', '42', '(- 1)', '(- 5)'])
        if sort == 'Real':
            return r.choice(['0.0', '1.0', '2.5', '(/ 1 3)', '(- 1.5)', '1',
                             '(/ 5 2)', '(/ 7 0)', '(/ 12 4)', '(/ 3 1)',
                             '(/ 2.5 0.5)', '12.75'])
        if sort.startswith('(_ BitVec'):
            w = int(sort.split()[2].rstrip(')'))
            v = r.randrange(1 << w)
            k = r.choice(['b', 'x', 'd']) if w % 4 == 0 else r.choice(
                ['b', 'd'])
            if k == 'b':
                return '#b' + format(v, f'0{w}b')
            if k == 'x':
                return '#x' + format(v, f'0{w // 4}x')
            return f'(_ bv{v} {w})'
        if sort == 'String':
            lits = [
                '""', '"a"', '"abc"', '"a b"', '"x""y"', '"(;"', '"\\x41"',
                '"hello world foo"', '"a;b"',
                '"say ""hi"" to all of you"',
                '"assertion ""x > 0"" failed in iteration 7 of the main loop"',
            ]
            if 'unicode' in self.feats:
                lits += ['"caf\u00e9"', '"\u00fcber \u4e16\u754c"']
            return r.choice(lits)
        if sort == 'RoundingMode':
            return r.choice(['RNE', 'RTZ', 'roundNearestTiesToEven'])
        if sort in ('(_ FloatingPoint 8 24)', 'Float32'):
            return r.choice([
                '(_ +zero 8 24)', '(_ NaN 8 24)',
                '(fp #b0 #b10000000 #b00000000000000000000000)'
            ])
        if sort == 'Color':
            return r.choice(['red', 'green'])
        if sort.startswith('(Array'):
            return self.var(sort)
        return self.var(sort)

    def term(self, sort, d):
        r = self.rng
        f = self.feats
        if d <= 0 or r.random() < 0.25:
            if r.random() < 0.35:
                return self.const(sort)
            return self.var(sort)
        if 'empty' in f and r.random() < 0.03:
            return '()'
        if 'comments' in f and r.random() < 0.03:
            return f'{self.term(sort, d - 1)} ; c{r.randrange(9)}\n'
        if 'let' in f and r.random() < 0.12:
            s2 = r.choice(self.sort_pool())
            n = self.fresh('l')
            bound = self.term(s2, d - 1)
            self.vars.setdefault(s2, []).append(n)
            body = self.term(sort, d - 1)
            self.vars[s2].remove(n)
            if r.random() < 0.3:
                n2 = self.fresh('l')
                return (f'(let (({n} {bound}) ({n2} {self.term(s2, 0)})) '
                        f'{body})')
            return f'(let (({n} {bound})) {body})'
        if self.funs and r.random() < 0.15:
            cands = [x for x in self.funs if x[2] == sort]
            if cands:
                name, args, _ = r.choice(cands)
                if not args:
                    return name
                return '(' + name + ' ' + ' '.join(
                    self.term(a, d - 1) for a in args) + ')'
        if r.random() < 0.1:
            c = self.term('Bool', d - 1)
            return f'(ite {c} {self.term(sort, d - 1)} {self.term(sort, d - 1)})'
        if 'annot' in f and 'named' in f and sort == 'Bool' and r.random(
        ) < 0.08:
            return f'(! {self.term(sort, d - 1)} :named n{r.randrange(99)})'
        if 'dt' in f and self.dt_done and sort == 'Int' and r.random() < 0.1:
            return f'(val (mk {self.term("Int", d - 1)}))'
        m = getattr(self, 't_' + self.skey(sort), None)
        if m is None:
            return self.var(sort)
        return m(sort, d)

    @staticmethod
    def skey(sort):
        if sort.startswith('(_ BitVec'):
            return 'bv'
        if sort.startswith('(Array'):
            return 'arr'
        if sort in ('(_ FloatingPoint 8 24)', 'Float32'):
            return 'fp'
        return sort.lower()

    def t_bool(self, sort, d):
        r = self.rng
        f = self.feats
        k = r.random()
        T = lambda s: self.term(s, d - 1)  # noqa: E731
        if k < 0.3:
            op = r.choice(['and', 'or', '=>', 'xor', '=', 'distinct'])
            n = r.choice([2, 2, 3])
            return f'({op} ' + ' '.join(T('Bool') for _ in range(n)) + ')'
        if k < 0.42:
            if r.random() < 0.3:
                return f'(not (not {T("Bool")}))'
            return f'(not {T("Bool")})'
        if 'quant' in f and k < 0.5:
            s2 = r.choice(self.sort_pool())
            n = self.fresh('q')
            self.vars.setdefault(s2, []).append(n)
            body = T('Bool')
            self.vars[s2].remove(n)
            q = r.choice(['forall', 'exists'])
            if r.random() < 0.3:
                return f'(not ({q} (({n} {s2})) {body}))'
            return f'({q} (({n} {s2})) {body})'
        pool = [s for s in self.sort_pool() if s not in ('Bool', )]
        if not pool:
            return self.var('Bool')
        s = r.choice(pool)
        key = self.skey(s)
        if key in ('int', 'real'):
            op = r.choice(['<', '<=', '>', '>=', '=', 'distinct'])
            n = r.choice([2, 2, 3])
            t = f'({op} ' + ' '.join(T(s) for _ in range(n)) + ')'
            return f'(not {t})' if r.random() < 0.2 else t
        if key == 'bv':
            op = r.choice(
                ['bvult', 'bvule', 'bvsgt', 'bvslt', '=', 'distinct', 'bvuge'])
            if r.random() < 0.15:
                w = int(s.split()[2].rstrip(')'))
                return (f'(= ((_ zero_extend 4) {T(s)}) '
                        f'((_ zero_extend 4) {T(s)}))')
            if r.random() < 0.1:
                return f'(= #b1 (bvcomp {T(s)} {T(s)}))'
            k2 = r.random()
            if k2 < 0.05:
                # equalities over bvcomp / one-bit operators and constants
                # (BVElimBVComp, BVTransformToBool, BVIteToBVComp)
                c = r.choice(['#b1', '#b0', '(_ bv1 1)', '(_ bv0 1)'])
                b1 = '(_ BitVec 1)'
                t = r.choice([
                    f'(bvcomp {T(s)} {T(s)})',
                    f'({r.choice(["bvand", "bvor", "bvxor"])} {T(b1)} {T(b1)})',
                    f'(ite (= {T(s)} {T(s)}) #b1 #b0)',
                    f'(ite (= {T(s)} {T(s)}) (_ bv1 1) (_ bv0 1))',
                ])
                if r.random() < 0.3:
                    return f'(= {c} {t} (bvcomp {T(s)} {T(s)}))'
                return f'(= {c} {t})' if r.random() < 0.6 else f'(= {t} {c})'
            if k2 < 0.1:
                # zero extensions of different lengths on both sides
                # (BVZeroExtendPredicate)
                w = int(s.split()[2].rstrip(')'))
                e1, e2 = r.choice([(2, 4), (4, 2), (3, 1), (1, 5)])
                lo = max(1, w - abs(e1 - e2))
                s_small = f'(_ BitVec {w})'
                s_big = f'(_ BitVec {w + abs(e1 - e2)})'
                a, b = (s_big, s_small) if e1 < e2 else (s_small, s_big)
                return (f'({op} ((_ zero_extend {e1}) {T(a)}) '
                        f'((_ zero_extend {e2}) {T(b)}))')
            return f'({op} {T(s)} {T(s)})'
        if key == 'string':
            op = r.choice(['str.contains', 'str.prefixof', '=', 'str.<'])
            return f'({op} {T(s)} {T(s)})'
        if key == 'fp':
            return r.choice([
                f'(fp.lt {T(s)} {T(s)})', f'(fp.isNaN {T(s)})',
                f'(fp.eq {T(s)} {T(s)})'
            ])
        if key == 'color':
            return r.choice([f'(= {T(s)} {T(s)})', f'((_ is red) {T(s)})'])
        return f'(= {T(s)} {T(s)})'

    def t_int(self, sort, d):
        r = self.rng
        T = lambda s: self.term(s, d - 1)  # noqa: E731
        k = r.random()
        if 'str' in self.feats and k < 0.12:
            return r.choice([
                f'(str.len {T("String")})',
                f'(str.indexof {T("String")} {T("String")} {T("Int")})'
            ])
        if 'arr' in self.feats and k < 0.22:
            return f'(select {T("(Array Int Int)")} {T("Int")})'
        op = r.choice(['+', '-', '*', 'div', 'mod', 'abs', '+'])
        if op == 'abs':
            return f'(abs {T(sort)})'
        n = r.choice([2, 2, 3])
        return f'({op} ' + ' '.join(T(sort) for _ in range(n)) + ')'

    def t_real(self, sort, d):
        r = self.rng
        T = lambda s: self.term(s, d - 1)  # noqa: E731
        if 'int' in self.feats and r.random() < 0.1:
            return f'(to_real {T("Int")})'
        op = r.choice(['+', '-', '*', '/'])
        return f'({op} {T(sort)} {T(sort)})'

    def t_bv(self, sort, d):
        r = self.rng
        w = int(sort.split()[2].rstrip(')'))
        T = lambda s: self.term(s, d - 1)  # noqa: E731
        k = r.random()
        if k < 0.1:
            return f'(bvnot (bvnot {T(sort)}))' if r.random(
            ) < 0.5 else f'(bvneg {T(sort)})'
        if k < 0.2 and w > 1:
            lo = r.randrange(w)
            wide = f'(_ BitVec {w + lo})'
            if wide in self.vars or r.random() < 0.3:
                return f'((_ extract {w + lo - 1} {lo}) {T(wide)})'
        if k < 0.3 and w >= 4:
            h = w // 2
            a, b = f'(_ BitVec {h})', f'(_ BitVec {w - h})'
            if r.random() < 0.4:
                return f'(concat (_ bv0 {h}) {T(b)})'
            return f'(concat {T(a)} {T(b)})'
        if k < 0.38 and w >= 4:
            e = r.choice([1, 2])
            if w - e >= 1:
                inner = f'(_ BitVec {w - e})'
                op = r.choice(['zero_extend', 'sign_extend'])
                if r.random() < 0.3 and w - 2 * e >= 1:
                    i2 = f'(_ BitVec {w - 2 * e})'
                    return f'((_ {op} {e}) ((_ {op} {e}) {T(i2)}))'
                return f'((_ {op} {e}) {T(inner)})'
        if k < 0.45:
            return f'(ite (= {T(sort)} {T(sort)}) {self.const(sort)} {self.const(sort)})' if w > 1 else f'(ite {T("Bool")} #b1 #b0)'
        if k < 0.49:
            # operators applied to constants / nested extensions
            # (BVExtractConstants, BVExtractZeroExtend, BVEvalExtend)
            k3 = r.randrange(4)
            if k3 == 0:
                lo = r.randrange(4)
                big = w + lo + r.randrange(3)
                v = r.randrange(1 << min(big, 16))
                c = (f'(_ bv{v} {big})' if r.random() < 0.5 else '#b' +
                     format(v, 'b').zfill(big)[-big:])
                return f'((_ extract {w + lo - 1} {lo}) {c})'
            if k3 == 1:
                e = r.choice([1, 2, 4])
                inner = max(1, w + r.choice([-1, 0, 1, 2]) - e + r.randrange(3))
                lo = r.randrange(inner + e - w + 1) if inner + e >= w else 0
                return (f'((_ extract {w + lo - 1} {lo}) '
                        f'((_ zero_extend {e}) {T(f"(_ BitVec {inner})")}))')
            if w >= 2:
                e = r.randrange(1, w)
                v = r.randrange(1 << min(w - e, 16))
                c = (f'(_ bv{v} {w - e})' if r.random() < 0.5 else '#b' +
                     format(v, 'b').zfill(w - e)[-(w - e):])
                op = r.choice(['zero_extend', 'sign_extend'])
                return f'((_ {op} {e}) {c})'
        if k < 0.5:
            return f'(bvnand {T(sort)} {T(sort)})'
        op = r.choice([
            'bvadd', 'bvand', 'bvor', 'bvmul', 'bvxor', 'bvsub', 'bvudiv',
            'bvshl', 'bvlshr'
        ])
        n = r.choice([2, 2, 3]) if op in ('bvadd', 'bvand', 'bvor', 'bvmul',
                                           'bvxor') else 2
        return f'({op} ' + ' '.join(T(sort) for _ in range(n)) + ')'

    def t_string(self, sort, d):
        r = self.rng
        T = lambda s: self.term(s, d - 1)  # noqa: E731
        k = r.random()
        if k < 0.4:
            return f'(str.++ {T(sort)} {T(sort)})'
        if k < 0.6:
            return f'(str.replace_all {T(sort)} {T(sort)} {T(sort)})' if r.random(
            ) < 0.5 else f'(str.replace {T(sort)} {T(sort)} {T(sort)})'
        if k < 0.8 and 'int' in self.feats:
            return f'(str.substr {T(sort)} {T("Int")} {T("Int")})'
        return f'(str.at {T(sort)} {self.const("Int") if "int" in self.feats else "0"})'

    def t_arr(self, sort, d):
        T = lambda s: self.term(s, d - 1)  # noqa: E731
        el = sort.split()[1]
        return f'(store {T(sort)} {T(el)} {T(el)})'

    def t_fp(self, sort, d):
        r = self.rng
        T = lambda s: self.term(s, d - 1)  # noqa: E731
        op = r.choice(['fp.add', 'fp.mul', 'fp.sub'])
        if r.random() < 0.3:
            return f'(fp.neg {T(sort)})'
        return f'({op} {self.term("RoundingMode", 0)} {T(sort)} {T(sort)})'

    # -- script ----------------------------------------------------------------
    def script(self):
        r = self.rng
        f = self.feats
        head = []
        if 'unicode' in f and r.random() < 0.6:
            head.append(r.choice(['; Author: Jos\u00e9',
                                  '; Author: Jos\u00e9 M\u00fcller (generator)',
                                  '; \u4e16\u754c benchmark']))
        if r.random() < 0.4:
            head.append('(set-info :status unknown)')
        if r.random() < 0.7:
            head.append(f'(set-logic {r.choice(["ALL", "QF_BV", "QF_LIA", "QF_SLIA", "QF_AUFBVDTLIA"])})')
        if r.random() < 0.2:
            head.append('(set-option :produce-models true)')
        body = []
        if 'dt' in f:
            if r.random() < 0.5:
                self.decls.append(
                    '(declare-datatypes ((Color 0) (Box 0)) '
                    '(((red) (green) (blue)) ((mk (val Int)))))')
            else:
                self.decls.append('(declare-datatype Color ((red) (green)))')
                self.decls.append('(declare-datatype Box ((mk (val Int))))')
            self.dt_done = True
        if 'uf' in f:
            for _ in range(r.choice([1, 2])):
                sp = self.sort_pool()
                args = [r.choice(sp) for _ in range(r.choice([1, 2]))]
                ret = r.choice(sp)
                n = self.fresh('f')
                self.decls.append(
                    f'(declare-fun {n} ({" ".join(args)}) {ret})')
                self.funs.append((n, args, ret))
        if 'deffun' in f:
            for _ in range(r.choice([1, 2])):
                sp = self.sort_pool()
                args = [r.choice(sp) for _ in range(r.choice([0, 1, 2]))]
                ret = r.choice(sp)
                n = self.fresh('g')
                # parameters named like global symbols on purpose
                params = []
                for a in args:
                    if self.vars.get(a) and r.random() < 0.4:
                        pn = r.choice(self.vars[a])
                    else:
                        pn = self.fresh('p')
                    params.append((pn, a))
                added = []
                for pn, a in params:
                    if pn not in self.vars.get(a, []):
                        self.vars.setdefault(a, []).append(pn)
                        added.append((pn, a))
                bodyt = self.term(ret, 2)
                for pn, a in added:
                    self.vars[a].remove(pn)
                ps = ' '.join(f'({pn} {a})' for pn, a in params)
                self.defs.append(f'(define-fun {n} ({ps}) {ret} {bodyt})')
                self.funs.append((n, args, ret))
        if 'recfun' in f and 'int' in f:
            n = self.fresh('rec')
            if r.random() < 0.5:
                self.defs.append(
                    f'(define-fun-rec {n} ((k Int)) Int (ite (<= k 0) 0 ({n} (- k 1))))'
                )
            else:
                self.defs.append(
                    f'(define-funs-rec (({n} ((k Int)) Int)) ((ite (<= k 0) 0 ({n} (- k 1)))))'
                )
            self.funs.append((n, ['Int'], 'Int'))
        nass = self.size
        for i in range(nass):
            depth = r.choice([1, 2, 2, 3, 3, 4])
            t = self.term('Bool', depth)
            if 'annot' in f and r.random() < 0.15:
                t = f'(! {t} :named a{i})'
            body.append(f'(assert {t})')
            if 'comments' in f and r.random() < 0.1:
                body.append(f'; comment {i} (with parens) "and quote')
            if r.random() < 0.05:
                body.append('(push 1)')
            if r.random() < 0.04:
                body.append('(check-sat)')
        tail = []
        if 'csa' in f and self.vars.get('Bool'):
            lits = ' '.join(r.sample(self.vars['Bool'], 1))
            tail.append(f'(check-sat-assuming ({lits}))')
        else:
            tail.append('(check-sat)')
        if r.random() < 0.3:
            tail.append('(get-model)')
        if r.random() < 0.6:
            tail.append('(exit)')
        decls = list(self.decls)
        if r.random() < 0.3:
            r.shuffle(decls)
        lines = head + decls + self.defs + body + tail
        sep = '\n'
        return sep.join(lines) + '\n'


def gen_script(rng, feats=None, size=None):
    return Gen(rng, feats, size).script()


# ---------------------------------------------------------------------------
# damage (for C04): token-level edits producing ill-formed / unbalanced text
# ---------------------------------------------------------------------------


def damage(rng, text, kind=None):
    from . import reftok
    toks = list(reftok.tokenize(text))
    if not toks:
        return text, 'none'
    kind = kind or rng.choice([
        'del_tok', 'del_tok', 'del_sub', 'dup_tok', 'stray_close',
        'missing_close', 'bare_top', 'top_string', 'swap', 'empty_list',
        'del_many', 'odd_index', 'deep_nest'
    ])
    n = len(toks)
    if kind == 'del_tok':
        idx = [i for i, t in enumerate(toks) if t not in '()']
        if idx:
            del toks[rng.choice(idx)]
    elif kind == 'del_many':
        idx = [i for i, t in enumerate(toks) if t not in '()']
        for i in sorted(rng.sample(idx, min(len(idx), rng.randint(2, 6))),
                        reverse=True):
            del toks[i]
    elif kind == 'del_sub':
        opens = [i for i, t in enumerate(toks) if t == '(']
        i = rng.choice(opens)
        depth = 0
        j = i
        while j < n:
            if toks[j] == '(':
                depth += 1
            elif toks[j] == ')':
                depth -= 1
                if depth == 0:
                    break
            j += 1
        del toks[i:j + 1]
    elif kind == 'dup_tok':
        i = rng.randrange(n)
        if toks[i] not in '()':
            toks.insert(i, toks[i])
    elif kind == 'stray_close':
        toks.insert(rng.randrange(n + 1), ')')
    elif kind == 'missing_close':
        idx = [i for i, t in enumerate(toks) if t == ')']
        if idx:
            del toks[rng.choice(idx)]
    elif kind == 'bare_top':
        # a bare token between top-level commands
        depth = 0
        tops = [0]
        for i, t in enumerate(toks):
            if t == '(':
                depth += 1
            elif t == ')':
                depth -= 1
                if depth == 0:
                    tops.append(i + 1)
        toks.insert(rng.choice(tops), rng.choice(['foo', '42', ':kw']))
    elif kind == 'top_string':
        depth = 0
        tops = [0]
        for i, t in enumerate(toks):
            if t == '(':
                depth += 1
            elif t == ')':
                depth -= 1
                if depth == 0:
                    tops.append(i + 1)
        toks.insert(rng.choice(tops), rng.choice(['"str"', '|q s|']))
    elif kind == 'swap':
        i = rng.randrange(n)
        j = rng.randrange(n)
        toks[i], toks[j] = toks[j], toks[i]
    elif kind == 'empty_list':
        i = rng.randrange(n + 1)
        toks[i:i] = ['(', ')']
    elif kind == 'odd_index':
        # an index of an indexed identifier / sort that is no numeral:
        # (_ BitVec n), (_ BitVec (w)), ((_ extract 1.5 0) x), (_ bv3 #x8)
        idx = [i for i in range(3, n)
               if toks[i].isdigit() and '_' in toks[max(0, i - 3):i]]
        if idx:
            i = rng.choice(idx if rng.random() < 0.5 else idx[:1])
            toks[i:i + 1] = rng.choice([['n'], ['(', 'w', ')'], ['1.5'],
                                        ['#x8'], ['"8"'], ['-1'], ['(', ')']])
    elif kind == 'deep_nest':
        # one token wrapped more deeply than the interpreter's recursion limit
        # (anywhere: a declared name, a sort, a term)
        idx = [i for i, t in enumerate(toks) if t not in '()']
        if idx:
            i = rng.choice(idx)
            d = rng.choice([1020, 1100, 1300])
            op = rng.choice([['f'], ['not'], [], ['+', '1'], ['_']])
            toks[i:i + 1] = (['('] + op) * d + [toks[i]] + [')'] * d
    return render_tokens(toks), kind


def render_tokens(toks):
    out = []
    depth = 0
    line = []
    for t in toks:
        line.append(t)
        if t == '(':
            depth += 1
        elif t == ')':
            depth -= 1
        if depth <= 0 and t == ')':
            out.append(' '.join(line))
            line = []
            depth = max(depth, 0)
    if line:
        out.append(' '.join(line))
    return '\n'.join(out).replace('( ', '(').replace(' )', ')') + '\n'


def gen_risky(rng, base_feats=None):
    """Script biased towards the shapes in which rewrite cycles and hanging
    substitutions live (property C03's anchors)."""
    feats = set(base_feats or rng.sample(
        ['int', 'bv', 'let', 'deffun', 'str', 'quant', 'real', 'empty', 'dt',
         'dt', 'fp', 'arr', 'uf', 'quoted'],
        rng.randint(2, 5)))
    feats |= {rng.choice(['int', 'bv'])}
    g = Gen(rng, feats, size=rng.choice([1, 2, 3, 5]))
    text = g.script()
    lines = text.rstrip('\n').split('\n')
    # insert before the trailing commands
    tail_at = len(lines)
    for i, ln in enumerate(lines):
        if ln.startswith('(check-sat') or ln.startswith('(exit') or ln.startswith('(get-model'):
            tail_at = i
            break
    extra_decl = []
    extra = []
    picks = rng.sample(range(14), rng.randint(2, 5))
    for p in picks:
        if p == 0:
            extra_decl.append('(declare-const a Int)')
            extra_decl.append('(declare-fun g (Int) Int)')
            extra_decl.append('(define-fun f ((a Int)) Int (+ a 1))')
            extra.append(rng.choice([
                '(assert (= (f (g a)) 0))', '(assert (> (f (+ a 2)) (f a)))',
                '(assert (= (f (f a)) a))'
            ]))
        elif p == 1:
            extra_decl.append('(declare-const x Int)')
            extra.append(rng.choice([
                '(assert (let ((x (+ x 1))) (> x 0)))',
                '(assert (let ((x (+ x 1)) (y x)) (> x y)))',
                '(assert (let ((z (let ((x (* x 2))) x))) (= z x)))'
            ]))
        elif p == 2:
            extra_decl.append('(declare-const p Bool)')
            extra_decl.append('(declare-const q Bool)')
            extra.append(rng.choice([
                '(assert (= false (and p q)))', '(assert (= (or p q) false))',
                '(assert (not (not (not p))))',
                '(assert (= p (not (not q))))', '(assert (xor p true q))',
                '(assert (=> p q p))'
            ]))
        elif p == 3:
            extra_decl.append('(declare-const bv (_ BitVec 8))')
            extra.append(rng.choice([
                '(assert (= ((_ zero_extend 4) #x0f) ((_ zero_extend 4) bv)))',
                '(assert (= #x00 bv))', '(assert (= bv (_ bv1 8)))',
                '(assert (= #b1 (bvcomp bv #x01)))',
                '(assert (bvult ((_ sign_extend 2) ((_ sign_extend 2) bv)) (concat #x0 bv)))',
                '(assert (= (bvnot (bvnot bv)) (bvneg (bvneg bv))))'
            ]))
        elif p == 4:
            for n in ('x', 'xx', 'x1', 'x11'):
                extra_decl.append(f'(declare-const {n} Int)')
            extra.append('(assert (< x xx x1 x11))')
            extra.append('(assert (= (+ x1 x11) (* xx 2)))')
        elif p == 5:
            extra_decl.append('(declare-const i Int)')
            extra.append(rng.choice([
                '(assert (= i 0))', '(assert (= 1 i))',
                '(assert (>= (+ i 0) (* i 1)))', '(assert (distinct i 0 1))',
                '(assert (not (< i 0)))'
            ]))
        elif p == 6:
            extra_decl.append('(declare-const s String)')
            extra.append(rng.choice([
                '(assert (str.contains s "ab"))',
                '(assert (= (str.replace_all s "a" "aa") s))',
                '(assert (= "" s))', '(assert (= (str.indexof s "x" 0) (- 1)))'
            ]))
        elif p == 7:
            extra_decl.append('(declare-const r Real)')
            extra.append(rng.choice(
                ['(assert (= r 0.0))', '(assert (> (/ r 1.0) (- r)))',
                 '(assert (> r (/ 5 2)))', '(assert (< (/ 6 0) (+ r (/ 9 3))))',
                 '(assert (= (* r (/ 4 1)) (/ 1 2)))']))
        elif p == 8:
            extra_decl.append('(declare-const |q s| Bool)')
            extra_decl.append('(declare-const |qs| Bool)')
            extra.append('(assert (and |q s| |qs|))')
        elif p == 9:
            extra_decl.append('(declare-const e Int)')
            extra.append(rng.choice([
                '(assert (= e ()))', '(assert (> (+ e ()) e))',
                '(assert (let ((w ())) (= w w)))'
            ]))
    if os.environ.get('DST_RISKY_FOCUS') == '14' or rng.random() < 0.08:
        # quoted symbols whose content reads like a numeral, a constant or a
        # reserved word: legal names, and hazardous once a mutator unquotes
        # or shortens them
        qn = rng.choice(['|1|', '|0|', '|_|', '|true|', '|x1|', '|v_|', '|as|'])
        srt = rng.choice(['Int', 'Int', 'Bool', '(_ BitVec 8)'])
        extra_decl.append(f'(declare-const {qn} {srt})')
        extra.append({
            'Int': rng.choice([f'(assert (> (+ {qn} 1) 0))',
                               f'(assert (= {qn} (* 2 {qn})))']),
            'Bool': f'(assert (or {qn} (not {qn})))',
            '(_ BitVec 8)': f'(assert (= ((_ zero_extend 1) {qn}) (_ bv1 9)))',
        }[srt])
    for p in picks:
        if p == 10:
            if not any('Color' in ln for ln in lines):
                extra_decl.append(rng.choice([
                    '(declare-datatype Color ((red) (green)))',
                    '(declare-datatypes ((Color 0)) (((red) (green) (blue))))'
                ]))
            n = rng.choice(['xc', 'c', 'zcol'])
            extra_decl.append(f'(declare-const {n} Color)')
            extra.append(rng.choice([
                f'(assert (distinct {n} green))', f'(assert (= {n} red))',
                f'(assert ((_ is red) {n}))', f'(assert (= {n} {n}))'
            ]))
        elif p == 11:
            extra_decl.append('(declare-const fx (_ FloatingPoint 8 24))')
            extra.append(rng.choice([
                '(assert (fp.lt fx (fp #b0 #b10000000 #b00000000000000000000000)))',
                '(assert (fp.eq fx (_ +zero 8 24)))',
                '(assert (fp.isNaN (fp.add RNE fx fx)))'
            ]))
        elif p == 13:
            # a term equated with a variable and used elsewhere: replacing
            # the term by the variable and eliminating the variable again
            extra_decl.append('(declare-const xv Int)')
            extra_decl.append('(declare-const yv Int)')
            extra_decl.append('(declare-fun pr (Int) Bool)')
            extra.append('(assert (= xv (+ yv 1)))')
            extra.append(rng.choice(['(assert (pr (+ yv 1)))',
                                     '(assert (> (+ yv 1) 0))']))
        elif p == 12:
            extra_decl.append('(declare-const ar (Array Int Int))')
            extra_decl.append('(declare-const k Int)')
            extra.append(rng.choice([
                '(assert (= (select (store ar k 1) k) 1))',
                '(assert (= ar (store ar 0 (select ar 0))))'
            ]))
    seen = set(lines)
    decls = []
    for d in extra_decl:
        if d not in seen:
            seen.add(d)
            decls.append(d)
    # declarations after the set-* prefix
    k = 0
    while k < len(lines) and lines[k].startswith('(set-'):
        k += 1
    out = lines[:k] + decls + lines[k:tail_at] + extra + lines[tail_at:]
    return '\n'.join(out) + '\n'


def gen_deep(rng):
    """Complexity stress (C03: every proposal is delivered in time bounded by
    a small function of the input size): one term nested 12-48 levels deep
    through the first or the last argument, or one very wide term, over an
    innermost term whose sort is known, unknown (application of an
    uninterpreted function, undeclared symbol) or ill-formed."""
    fam = rng.choice(['int', 'int', 'real', 'bv', 'bool', 'str', 'ite', 'let',
                      'fun', 'wide', 'neg'])
    depth = rng.choice([12, 16, 20, 24, 32, 48])
    first = rng.random() < 0.6
    decl = ['(declare-const x Int)', '(declare-const r Real)',
            '(declare-const b (_ BitVec 8))', '(declare-const p Bool)',
            '(declare-const s String)', '(declare-fun f (Int) Int)',
            '(declare-fun fr (Int) Real)', '(declare-fun fb (Int) (_ BitVec 8))',
            '(declare-fun fp (Int) Bool)', '(declare-fun fs (Int) String)',
            '(define-fun dbl ((a Int)) Int (+ a a))']
    inner_by_sort = {
        'int': ['x', '(f x)', 'undeclared', '(f undeclared)', '(select ua 0)', '()'],
        'real': ['r', '(fr x)', 'undeclared', '1.5'],
        'bv': ['b', '(fb x)', 'undeclared', '#x0f'],
        'bool': ['p', '(fp x)', 'undeclared', '(> (f x) 0)'],
        'str': ['s', '(fs x)', 'undeclared', '"a"'],
    }

    def nest(op, t, other):
        for _ in range(depth):
            t = f'({op} {t} {other})' if first else f'({op} {other} {t})'
        return t

    if fam in ('int', 'real', 'bv', 'bool', 'str'):
        op, other = {
            'int': (rng.choice(['+', '-', '*']), rng.choice(['1', 'x'])),
            'real': (rng.choice(['+', '-', '*', '/']), rng.choice(['1.0', 'r'])),
            'bv': (rng.choice(['bvadd', 'bvand', 'bvor', 'bvmul']),
                   rng.choice(['#x01', 'b'])),
            'bool': (rng.choice(['and', 'or', '=>', 'xor']),
                     rng.choice(['p', 'true'])),
            'str': ('str.++', rng.choice(['"a"', 's'])),
        }[fam]
        t = nest(op, rng.choice(inner_by_sort[fam]), other)
        rel = {'int': f'(> {t} 0)', 'real': f'(> {t} 0.0)',
               'bv': f'(= {t} #x00)', 'bool': t,
               'str': f'(= {t} s)'}[fam]
    elif fam == 'ite':
        t = rng.choice(inner_by_sort['int'])
        for _ in range(depth):
            t = f'(ite p {t} 0)' if first else f'(ite p 0 {t})'
        rel = f'(= {t} x)'
    elif fam == 'let':
        t = '(> v0 0)'
        for i in range(depth):
            prev = f'v{i + 1}' if i + 1 < depth else rng.choice(
                inner_by_sort['int'])
            t = f'(let ((v{i} (+ {prev} 1))) {t})'
        rel = t
    elif fam == 'fun':
        g = rng.choice(['f', 'dbl', 'dbl'])
        t = rng.choice(inner_by_sort['int'])
        for _ in range(min(depth, 20)):
            t = f'({g} {t})'
        rel = f'(= {t} 0)'
    elif fam == 'neg':
        op = rng.choice(['not', 'bvnot', 'bvneg', '-'])
        t = {'not': 'p', 'bvnot': 'b', 'bvneg': 'b', '-': 'x'}[op]
        if rng.random() < 0.4:
            t = 'undeclared'
        for _ in range(depth):
            t = f'({op} {t})'
        rel = {'not': t, 'bvnot': f'(= {t} b)', 'bvneg': f'(= {t} b)',
               '-': f'(> {t} 0)'}[op]
    else:  # wide
        n = rng.choice([30, 60, 120])
        k = rng.choice(['int', 'bool', 'bv'])
        op = {'int': '+', 'bool': 'and', 'bv': 'bvadd'}[k]
        args = [rng.choice(inner_by_sort[k][:3] + ['1' if k == 'int' else
                                                   inner_by_sort[k][0]])
                for _ in range(n)]
        t = f'({op} {" ".join(args)})'
        rel = {'int': f'(> {t} 0)', 'bool': t, 'bv': f'(= {t} #x00)'}[k]
    lines = ['(set-logic ALL)'] + rng.sample(decl, rng.randint(6, len(decl)))
    if 'dbl' in rel and not any('dbl' in d for d in lines):
        lines.append('(define-fun dbl ((a Int)) Int (+ a a))')
    lines += [f'(assert {rel})', '(check-sat)']
    return '\n'.join(lines) + '\n'


TRICKY_LITERALS = [
    '"assertion ""x > 0"" failed in iteration 7 of the main loop after 12 times"',
    '"say ""hi"" to all of you and then wait for the answer of everybody else"',
    '"a (parenthesised) remark ; with a semicolon and | a bar inside the text"',
    '"two  blanks and a tab\tinside of a fairly long string literal token here"',
    '"""quoted"" at the start and at the ""end"""',
    '"x""y"', '""""', '"plain but long enough to push the line beyond the wrap width ok"',
    # line structure inside a token: line breaks, an empty line, trailing
    # blanks before a line break, a line that looks like a comment
    '"first line\nsecond line"',
    '"a paragraph\n\nand another one after an empty line"',
    '"trailing blanks   \n  leading blanks"',
    '"text\n; not a comment\nmore text"',
    '"\n"', '"\n\n"',
]
TRICKY_SYMBOLS = [
    '|a quoted symbol with several blanks inside of it and some (parens) too|',
    '|semi;colon and "double quotes" inside a quoted symbol that is long|',
    '|q|', '|two words|',
    'a_very_long_simple_symbol_' + 'x' * 70,
    '|two\nlines|', '|an empty\n\nline inside|', '|ends with a blank \n|',
]


def gen_lexical(rng):
    """Script whose tokens stress the renderers: long string literals with
    escaped quotes and blanks, quoted symbols with blanks / parentheses /
    semicolons, tokens longer than the wrap width, comments inside terms.
    Returns (text, tricky tokens that occur in it)."""
    lits = rng.sample(TRICKY_LITERALS, rng.randint(1, 3))
    syms = rng.sample(TRICKY_SYMBOLS, rng.randint(1, 2))
    lines = ['(set-logic ALL)', '(declare-const s String)']
    for sy in syms:
        lines.append(f'(declare-const {sy} String)')
    used = []
    for i, li in enumerate(lits):
        sy = rng.choice(syms + ['s'])
        form = rng.choice([
            '(assert (= {sy} {li}))',
            '(assert (str.contains (str.++ s {sy}) {li}))',
            '(assert (not (= (str.++ {li} s) (str.++ {sy} {li}))))',
            '(assert (str.prefixof {li} ; comment inside\n (str.++ {sy} s)))',
            # the first argument is a plain (possibly quoted) symbol: mutators
            # derive new symbol names from it
            '(assert (str.contains {sy} {li}))',
        ])
        lines.append(form.format(sy=sy, li=li))
        used += [li] + ([sy] if sy != 's' else [])
    if rng.random() < 0.5:
        # a quoted symbol of a bit-vector sort (new names are derived from it
        # when its bit-width is reduced)
        bsy = rng.choice(['|b v|', '|a(3)|', '|w;1|', '|bv|'])
        w = rng.choice([4, 8, 16])
        lines.append(f'(declare-const {bsy} (_ BitVec {w}))')
        lines.append(rng.choice([
            '(assert (= (bvadd {b} (_ bv1 {w})) {b}))',
            '(assert (bvult {b} (bvnot {b})))',
            '(assert (= ((_ extract 1 0) {b}) #b01))',
        ]).format(b=bsy, w=w))
        used.append(bsy)
    lines.append('(assert (= s s))')
    lines.append('(check-sat)')
    return '\n'.join(lines) + '\n', sorted(set(used))
