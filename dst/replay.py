"""Replay of a recorded case: a pure function of the file and the code."""
import json

from . import registry


def run_doc(doc):
    prop = registry.get(doc['property'])
    case = json.loads(json.dumps(doc['case']))
    v = prop.run(case)
    return v


def replay(path):
    with open(path) as f:
        doc = json.load(f)
    v = run_doc(doc)
    want = doc['violation']['sig']
    got = [x for x in v.violations if x['sig'] == want]
    print(f"[dst] replay {path}: trace digests {v.digests}")
    if doc.get('trace_digests') is not None:
        same = doc['trace_digests'] == v.digests
        print(f"[dst] recorded trace digests {'match' if same else 'DIFFER: ' + str(doc['trace_digests'])}")
    if got:
        print(f"VIOLATION property={doc['property']} replay={path}")
        print(f"  {got[0]['sig']}: {got[0]['msg']}")
        for k, val in got[0]['detail'].items():
            print(f'    {k}: {val}')
        return 1
    others = [x['sig'] for x in v.violations]
    print(f'[dst] the recorded violation {want} did not reproduce'
          f'{" (other violations: " + str(others) + ")" if others else ""}')
    return 0
