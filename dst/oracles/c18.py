"""C18 - sequential runs are reproducible."""
import copy
import re
import hashlib
import json
import os
import random
import subprocess
import sys
import tempfile

from .. import props
from .. import reftok
from .. import sim
from .. import workload
from .c02 import mutator_registry

HASHSEEDS = ['0', '1', '4242', '987654321']
V = 4  # variants (interpreters with different PYTHONHASHSEED) per config
HERE = os.path.dirname(os.path.dirname(os.path.abspath(__file__)))


def chain_of(spec):
    res = sim.execute(spec)
    rec = res.rec
    out = hashlib.blake2b(res.final_out if res.final_out is not None else
                          b'<none>', digest_size=8).hexdigest()
    fresh = re.compile(r'(?<![^ ])x\d+__fresh(?![^ ])')
    return {
        'chain': [w['dig'] for w in rec.writes if w['completed']],
        # the same chain with the numbers of ddSMT's fresh symbols erased
        'canon': [reftok.digest((fresh.sub('x__fresh', rec.text(w['dig'])), ))
                  for w in rec.writes if w['completed']],
        'out_canon': reftok.digest((re.sub(
            rb'x\d+__fresh', b'x__fresh', res.final_out or b'').decode(
                errors='replace'), )),
        'texts': [rec.text(w['dig'])[:200] for w in rec.writes
                  if w['completed']][:40],
        'out': out,
        'status': res.status,
        'outcome': res.outcome,
        'digest': res.trace_digest,
        'sim_time': res.sim_time,
        'steps': res.steps,
        'final': (res.final_out or b'').decode(errors='replace')[:400],
        'res': None,
    }, res


def variant_spec(base, config_index, variant):
    """Same input/options/command; different timing, pids, scheduling."""
    s = copy.deepcopy(base)
    r = random.Random(f'{config_index}/{variant}')
    s['seed'] = r.randrange(1 << 62)
    s['sched'] = workload.gen_sched(r, parallel=True)
    s['sched']['p_time'] = r.choice([0.0, 0.05, 0.3])
    s['sched']['wall_cap'] = 6.0
    s['sched']['step_cap'] = 120000
    s.pop('choices', None)
    return s


def first_difference(a, b):
    n = min(len(a['chain']), len(b['chain']))
    for i in range(n):
        if a['chain'][i] != b['chain'][i]:
            return i
    if len(a['chain']) != len(b['chain']):
        return n
    return None


class C18(props.Prop):
    id = 'C18'
    title = 'Sequential runs are reproducible'
    rule = (
        'case = one configuration (input, deterministic command model, option '
        'set with -j 1) executed in several variants: 4 fresh interpreters '
        'with different PYTHONHASHSEED, and in each two runs that differ in '
        'scheduler seed and personality, virtual pid base, command latencies '
        '(all far below the time limit), queue look-ahead and line-level '
        'pre-emption; oracle: identical sequence of adopted inputs, '
        'byte-identical output file, identical exit status; evaluations = '
        'simulated runs; distinct non-trivial = configurations whose run '
        'adopted >= 2 simplifications and was executed in >= 2 variants')
    budget = {'quick': 40, 'thorough': 720}

    def worker_env(self, w):
        return {'PYTHONHASHSEED': HASHSEEDS[w % V], 'DST_KEEP_HASHSEED': '1'}

    def case_index(self, wid, k, nworkers):
        groups = max(1, nworkers // V)
        return (wid // V) % groups + k * groups

    def gen(self, rng, tier):
        text = None
        if rng.random() < 0.4:
            # many symbols of few sorts: order of name tables matters
            from .. import gen_input
            text = gen_input.gen_script(
                rng, feats=set(rng.sample(['int', 'bv', 'real', 'str'], 1) +
                               rng.sample(['let', 'uf', 'deffun', 'quant'], 1)),
                size=rng.choice([3, 5, 8]))
        spec = workload.base_spec(
            rng,
            jobs=(1, ),
            text=text,
            small=rng.random() < 0.6,
            model_style=rng.choice(['hash', 'mixed', 'contains', 'count',
                                    'subseq']),
            out_modes=('', '', '--pretty-print'))
        if '-j' not in spec['opts'] and rng.random() < 0.5:
            spec['opts'] += ['-j', '1']
        # commands sensitive to symbol names (they are: functions of tokens)
        spec['model']['canon_fresh'] = False
        if rng.random() < 0.3:
            # a command that is slow on some of the inputs it fails on (always
            # far below an explicit time limit): only the timing differs
            # between the variants, never the outcome
            cl = spec['model']['classes']
            cl['slowbug'] = dict(cl['bug'])
            cl['slowbug']['beh'] = ['normal', rng.choice([1.2, 1.5, 2.0])]
            rules = []
            for pred, c in spec['model']['rules']:
                if c == 'bug':
                    rules.append([{'k': 'and', 'a': [pred, {
                        'k': 'hash', 'p': rng.choice([0.3, 0.5]),
                        'salt': rng.randrange(1 << 30)}]}, 'slowbug'])
                rules.append([pred, c])
            spec['model']['rules'] = rules
            spec['opts'] += ['--timeout', str(rng.choice([20, 30]))]
        reg = mutator_registry()
        k = rng.random()
        if k < 0.3:
            # walks among the rewriting mutators (which enumerate names,
            # sorts and tables), erasers off
            from .c03 import ERASERS
            keep = [e for e in ERASERS if e != 'replace-by-variable']
            spec['opts'] += [f'--no-{o}' for o in rng.sample(
                keep, rng.randint(2, len(keep)))]
        elif k < 0.45:
            names = sorted(reg['options'])
            spec['opts'] += ['--disable-all'] + [
                f'--{o}' for o in rng.sample(names, rng.randint(2, 8))
            ] + rng.choice([[], ['--replace-by-variable']])
        else:
            spec['opts'] += workload.gen_mutator_opts(rng, reg, p=0.3)
        # comparison options and a cross-check command (a sequential run is
        # sequential whatever is compared); drawn from a generator of their
        # own so that the rest of the case stays what it was
        import random
        r2 = random.Random(spec['seed'] * 13 + 7)
        if r2.random() < 0.35:
            from .c01 import add_compare
            add_compare(r2, spec, p_cc=0.7)
            if spec.get('model_cc'):
                spec['model_cc']['canon_fresh'] = False
        return {'prop': 'C18', 'runs': [spec]}

    def run(self, case):
        v = props.Verdict()
        if case.get('hashseeds'):
            return self.run_cross(case, v)
        base = case['runs'][0]
        ci = case.get('index', 0)
        var = case.get('wid', 0) % V
        hs = os.environ.get('PYTHONHASHSEED', '?')
        specs = case.get('variants')
        if specs is None:
            specs = [variant_spec(base, ci, var), variant_spec(base, ci, var + V)]
        chains = []
        for s in specs:
            c, res = chain_of(s)
            v.absorb(res)
            s['choices'] = res.choices
            chains.append(c)
        case['variants'] = specs
        v.evaluations = len(specs)
        v.key = f'{ci}'
        a, b = chains[0], chains[1]
        if a['outcome'] in ('hang', 'stepcap', 'wallcap', 'deadlock') or \
                b['outcome'] in ('hang', 'stepcap', 'wallcap', 'deadlock'):
            v.aborted = a['outcome'] if a['outcome'] != 'returned' else b['outcome']
            return v
        self.compare(v, a, b, f'two runs in one interpreter (PYTHONHASHSEED={hs}) '
                     f'with different timing / scheduling', 'timing')
        if any(x['sig'].endswith(':timing') for x in v.violations):
            # attribution: repeat both runs with a command that treats all
            # fresh-symbol names alike; if the runs then agree up to these
            # names, the numbering of fresh symbols is the only cause
            def rerun(extra_opts):
                alt = []
                for s in specs:
                    s2 = copy.deepcopy(s)
                    s2['model']['canon_fresh'] = True
                    s2['opts'] = s2['opts'] + extra_opts
                    s2.pop('choices', None)
                    c2, r2 = chain_of(s2)
                    v.absorb(r2)
                    alt.append(c2)
                return (alt[0]['canon'] == alt[1]['canon']
                        and alt[0]['out_canon'] == alt[1]['out_canon'])

            # 1. a command that ignores the number in x<n>__fresh; 2. (names
            # derived from fresh symbols by the symbol simplifier, and the
            # id-dependent collision test, escape that) additionally without
            # the mutator that embeds node ids in names
            if rerun([]) or rerun(['--no-introduce-fresh-variables']):
                for x in v.violations:
                    if x['sig'].endswith(':timing'):
                        x['sig'] = x['sig'][:-len('timing')] + 'fresh-symbol-name'
                        x['msg'] += (' [attribution: with a command that '
                                     'ignores the number in x<n>__fresh the '
                                     'two runs agree]')
        v.nontrivial = len(a['chain']) >= 2
        v.custom = {'config': ci, 'variant': var, 'hashseed': hs,
                    'chain': a['chain'], 'canon': a['canon'],
                    'out_canon': a['out_canon'],
                    'out': a['out'], 'status': a['status'],
                    'outcome': a['outcome'], 'spec': specs[0],
                    'texts': a['texts'][:12]}
        v.sample = {
            'opts': base['opts'],
            'input': base['input'][:300],
            'variants': [s['sched'] for s in specs],
            'hashseed': hs,
            'adopted_chain_len': len(a['chain']),
            'chains_equal': a['chain'] == b['chain'],
        }
        return v

    def compare(self, v, a, b, how, kind):
        d = first_difference(a, b)
        if d is not None:
            ca, cb = a.get('canon') or [], b.get('canon') or []
            if d < len(ca) and d < len(cb) and ca[:d + 1] == cb[:d + 1]:
                # the inputs only differ in the number inside the name of a
                # fresh symbol (x<node id>__fresh)
                kind = 'fresh-symbol-name'
            v.violate(
                'chains-differ', f'C18:chains-differ:{kind}',
                f'{how}: the sequences of adopted inputs differ at step '
                f'{d + 1} (lengths {len(a["chain"])} / {len(b["chain"])})',
                step=d + 1,
                a=(a['texts'][d] if d < len(a['texts']) else None),
                b=(b['texts'][d] if d < len(b['texts']) else None))
        elif a['out'] != b['out']:
            if a.get('out_canon') is not None and a.get('out_canon') == b.get(
                    'out_canon'):
                kind = 'fresh-symbol-name'
            v.violate('outputs-differ', f'C18:outputs-differ:{kind}',
                      f'{how}: same adopted inputs but the output files are '
                      f'not byte-identical', a=a['final'], b=b['final'])
        elif a['status'] != b['status'] or a['outcome'] != b['outcome']:
            v.violate('status-differs', f'C18:status-differs:{kind}',
                      f'{how}: exit status {a["status"]}/{a["outcome"]} vs '
                      f'{b["status"]}/{b["outcome"]}')

    # -- cross-interpreter comparison ---------------------------------------------
    def post(self, reports):
        by_cfg = {}
        for r in reports:
            for cu in r.get('custom', []):
                by_cfg.setdefault(cu['config'], []).append(cu)
        out = []
        seen_sigs = set()
        self.cross_configs = 0
        for cfg, lst in sorted(by_cfg.items()):
            if len(lst) < 2:
                continue
            self.cross_configs += 1
            ref = lst[0]
            for other in lst[1:]:
                v = props.Verdict()
                a = {'chain': ref['chain'], 'texts': ref['texts'],
                     'canon': ref.get('canon'), 'out_canon': ref.get('out_canon'),
                     'out': ref['out'], 'status': ref['status'],
                     'outcome': ref['outcome'], 'final': ''}
                b = {'chain': other['chain'], 'texts': other['texts'],
                     'canon': other.get('canon'),
                     'out_canon': other.get('out_canon'),
                     'out': other['out'], 'status': other['status'],
                     'outcome': other['outcome'], 'final': ''}
                if 'cap' in str(a['outcome']) or 'cap' in str(b['outcome']) \
                        or a['outcome'] == 'hang' or b['outcome'] == 'hang':
                    continue
                self.compare(
                    v, a, b,
                    f'interpreters with PYTHONHASHSEED={ref["hashseed"]} and '
                    f'{other["hashseed"]}', 'hashseed')
                if v.violations and len(seen_sigs) < 6:
                    # re-run the pair in fresh interpreters to attribute it
                    cc = {'prop': 'C18', 'runs': [ref['spec'], other['spec']],
                          'hashseeds': [ref['hashseed'], other['hashseed']],
                          'index': cfg}
                    try:
                        v = self.run_cross(copy.deepcopy(cc), props.Verdict())
                    except Exception:
                        pass
                for viol in v.violations:
                    if viol['sig'] in seen_sigs:
                        continue
                    seen_sigs.add(viol['sig'])
                    out.append({
                        'index': cfg,
                        'violation': viol,
                        'case': {
                            'prop': 'C18',
                            'runs': [ref['spec'], other['spec']],
                            'hashseeds': [ref['hashseed'], other['hashseed']],
                            'index': cfg,
                        }
                    })
        return out

    def run_cross(self, case, v):
        """Replay of a cross-interpreter divergence: each run in a fresh
        interpreter with its own PYTHONHASHSEED."""
        chains = []
        for spec, hs in zip(case['runs'], case['hashseeds']):
            with tempfile.NamedTemporaryFile('w', suffix='.json',
                                             delete=False) as f:
                json.dump(spec, f)
                path = f.name
            env = dict(os.environ)
            env['PYTHONHASHSEED'] = str(hs)
            env['DST_KEEP_HASHSEED'] = '1'
            try:
                r = subprocess.run([sys.executable,
                                    os.path.join(HERE, 'cli.py'),
                                    'chain', path], env=env,
                                   capture_output=True, text=True,
                                   timeout=600)
            finally:
                os.unlink(path)
            line = [ln for ln in r.stdout.splitlines()
                    if ln.startswith('CHAIN ')]
            if not line:
                raise RuntimeError('chain subprocess failed: ' + r.stderr[-500:])
            c = json.loads(line[-1][6:])[0]
            chains.append(c)
            v.runs += 1
            v.digests.append(c['digest'])
        v.key = str(case.get('index'))
        self.compare(v, chains[0], chains[1],
                     f'interpreters with PYTHONHASHSEED={case["hashseeds"][0]} '
                     f'and {case["hashseeds"][1]}', 'hashseed')
        if any(x['sig'].endswith(':hashseed') for x in v.violations) and \
                not case.get('no_attribution'):
            def rerun(extra_opts):
                c2 = copy.deepcopy(case)
                c2['no_attribution'] = True
                for s in c2['runs']:
                    s['model']['canon_fresh'] = True
                    s['opts'] = s['opts'] + extra_opts
                    s.pop('choices', None)
                v2 = self.run_cross(c2, props.Verdict())
                return not v2.violations or all(
                    x['sig'].endswith('fresh-symbol-name')
                    for x in v2.violations)

            if rerun([]) or rerun(['--no-introduce-fresh-variables']):
                for x in v.violations:
                    if x['sig'].endswith(':hashseed'):
                        x['sig'] = x['sig'][:-len('hashseed')] + 'fresh-symbol-name'
                        x['msg'] += (' [attribution: with a command that '
                                     'ignores the number in x<n>__fresh the '
                                     'two runs agree]')
        return v
