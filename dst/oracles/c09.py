"""C09 - a candidate is accepted iff it matches the golden run as documented."""
import collections

from .. import props
from .. import refrule
from .. import reftok
from .. import gen_cmd
from .. import sim
from .. import workload
from .c01 import add_compare


def _diffclass(g, r):
    if g is None or r is None:
        return 'none'
    if r[0] == 'timeout' or g[0] == 'timeout':
        return 'timeout'
    s = ''
    s += 'E' if g[0] != r[0] else 'e'
    s += ('O' if g[1] != r[1] else 'o') + ('+' if g[1] and g[1] in (r[1] or '') and g[1] != r[1] else '')
    s += ('R' if g[2] != r[2] else 'r') + ('+' if g[2] and g[2] in (r[2] or '') and g[2] != r[2] else '')
    return s


class C09(props.Prop):
    id = 'C09'
    title = 'A candidate is accepted iff it matches the golden run as documented'
    rule = (
        'case = one whole simulated run whose command (and cross-check) model '
        'returns outcomes from a colliding alphabet (same exit/different '
        'stdout, stream containing the golden stream, stderr-only difference, '
        'exit-only difference, swapped streams) under a random combination of '
        '--ignore-output/--ignore-out/--ignore-err/--match-out/--match-err, '
        'their -cc counterparts and --unchecked; every individual check of '
        'the run is compared with the reference rule (evaluations = checks); '
        'distinct non-trivial = distinct (comparison options, difference '
        'class of the main run, difference class of the cross-check run, '
        'verdict) combinations observed, counted over checks that ran a '
        'command')
    budget = {'quick': 30, 'thorough': 600}

    def gen(self, rng, tier):
        spec = workload.base_spec(rng,
                                  jobs=(1, 1, 2, 4),
                                  small=True,
                                  out_modes=('', ))
        toks = reftok.tokenize(spec['input'])
        spec['model'] = gen_cmd.gen_model_multi(rng, toks)
        add_compare(rng, spec, p_cc=0.5)
        if rng.random() < 0.06:
            spec['opts'].append('--unchecked')
        spec['sched']['line_gap'] = None
        return {'prop': 'C09', 'runs': [spec]}

    def run(self, case):
        spec = case['runs'][0]
        res = sim.execute(spec)
        v = props.Verdict()
        v.absorb(res)
        spec['choices'] = res.choices
        v.key = res.trace_digest
        rec = res.rec
        if res.outcome in ('hang', 'stepcap', 'wallcap', 'deadlock') or str(
                res.outcome).startswith('harness'):
            v.aborted = res.outcome
            return v
        cfg = refrule.compare_cfg(spec['opts'])
        flags = ''.join([
            'I' if cfg['ignore_out'] else '-', 'J' if cfg['ignore_err'] else
            '-', 'M' if cfg['match_out'] else '-', 'N' if cfg['match_err']
            else '-', '|', 'C' if spec.get('model_cc') else '-', 'I' if
            cfg['cc']['ignore_out'] else '-', 'M' if cfg['cc']['match_out']
            else '-', 'N' if cfg['cc']['match_err'] else '-', 'U'
            if cfg['unchecked'] else '-'
        ])
        g, gcc = props.golden_runs(res)
        table = collections.Counter()
        nchecks = 0
        if cfg['unchecked']:
            if rec.inv:
                v.violate('unchecked-runs-command', 'C09:unchecked-runs-command',
                          f'--unchecked given but {len(rec.inv)} command '
                          f'invocations happened')
            for c in rec.checks:
                if c['verdict'] is False:
                    v.violate('unchecked-rejects', 'C09:unchecked-rejects',
                              '--unchecked given but a candidate was rejected')
                nchecks += 1
            table[f'{flags} unchecked'] += len(rec.checks)
        else:
            for c in rec.checks:
                if c['verdict'] is None:
                    continue
                invs = [rec.inv[i] for i in c['inv']]
                main = [d for d in invs if d['which'] == 'main']
                cc = [d for d in invs if d['which'] == 'cc']
                if not main or g is None:
                    if c['verdict']:
                        v.violate('accepted-without-run',
                                  'C09:accepted-without-run',
                                  'a candidate was accepted although the '
                                  'command was not run on it')
                    continue
                if main[0]['dig'] is None:
                    continue
                run = props.run_tuple(main[0])
                run_cc = props.run_tuple(cc[0]) if cc else None
                ref = refrule.accepts(cfg, g, run, gcc, run_cc)
                if ref and gcc is not None and cc and cc[0]['dig'] != main[0]['dig']:
                    ref = False
                nchecks += 1
                dc = _diffclass(g, run)
                dcc = _diffclass(gcc, run_cc)
                table[f'{flags} main={dc} cc={dcc} -> {"acc" if c["verdict"] else "rej"}'] += 1
                if bool(c['verdict']) != bool(ref):
                    what = 'accepted' if c['verdict'] else 'rejected'
                    v.violate(
                        'wrong-verdict',
                        f'C09:wrong-verdict:{what}',
                        f'ddSMT {what} a candidate that the documented rule '
                        f'{"rejects" if c["verdict"] else "accepts"}',
                        options=[o for o in spec['opts']],
                        golden=g, run=run, golden_cc=gcc, run_cc=run_cc)
        # argv oracle
        ext = spec.get('ext', '.smt2')
        for d in rec.inv:
            argv = d['argv']
            which = d['which'] or ('cc' if '/binary_cc' in argv[0] else 'main')
            want_args = list(spec.get('cc_args', [])) if which == 'cc' else list(
                spec.get('cmd_args', []))
            problems = []
            if d.get('bin_same') is False:
                problems.append(f'executable {argv[0]} is neither the given '
                                f'command nor the cross-check command')
            if argv[1:-1] != want_args:
                problems.append(f'arguments {argv[1:-1]} != {want_args}')
            f = argv[-1]
            import os
            if os.path.splitext(f)[1] != ext:
                problems.append(f'file {f} lacks extension {ext!r}')
            if problems:
                v.violate('argv', 'C09:argv:' + problems[0].split()[0],
                          'command invoked as ' + ' '.join(argv) + ': ' +
                          '; '.join(problems))
                break
        if rec.inv and not cfg['unchecked'] and (
                rec.inv[0].get('role') or rec.inv[0]['which']) != 'main':
            v.violate('argv', 'C09:argv:executable',
                      'the first run (the golden run) did not execute the '
                      'command under test but ' + ' '.join(rec.inv[0]['argv']))
        first = [d for d in rec.inv if d['which'] == 'main'][:1]
        if first and not first[0]['file'].startswith('$SB/in'):
            v.violate('argv', 'C09:argv:golden-file',
                      f'the golden run was on {first[0]["file"]}, not on the '
                      f'input file')
        v.evaluations = max(1, nchecks)
        v.table = table
        v.ntkeys = set((k, ) for k in table if 'unchecked' not in k)
        v.nontrivial = nchecks >= 3
        v.probes['checks'] += nchecks
        v.probes['unchecked_runs'] += 1 if cfg['unchecked'] else 0
        v.sample = {
            'opts': spec['opts'],
            'input': spec['input'][:300],
            'classes': {k: [c['exit'], c['out'], c['err']] for k, c in spec['model']['classes'].items()},
            'checks': nchecks,
            'table': dict(list(table.items())[:6]),
        }
        return v
