"""C04 - every run completes: no internal failure on any input, meaningful
exit status."""
import re
import traceback

from .. import props
from .. import reftok
from .. import gen_cmd
from .. import gen_input
from .. import sim
from .. import workload
from .. import probes
from .c02 import mutator_registry, enumerate_fixpoint
from .c03 import DDSMT_FILES


def exc_signature(res):
    e = res.exc
    name = type(e).__name__
    frames = []
    tb = e.__traceback__
    for fs in traceback.extract_tb(tb):
        import os
        f = os.path.basename(fs.filename)
        if f in DDSMT_FILES:
            frames.append((f[:-3], fs.name))
    names = [f'{a}.{b}' for a, b in frames]
    if any(b in ('_TaskGenerator__get_substs', '__get_substs') or
           (a == 'strategy_ddmin' and b in ('__next__', '__init__'))
           for a, b in frames):
        inner = names[-1] if names else '?'
        return f'{name}:ddmin-taskgen-unguarded', inner
    if any(a == 'nodeio' and b == 'parse_smtlib' for a, b in frames):
        return f'{name}:parser', names[-1]
    if any(b == 'auto_detect_theories' for a, b in frames):
        return f'{name}:theory-detection', names[-1]
    if any(b == 'collect_information' for a, b in frames):
        return f'{name}:collect-information', names[-1]
    if any(b == 'do_golden_runs' for a, b in frames):
        return f'{name}:golden-run', names[-1]
    return f'{name}:{names[-1] if names else "?"}', names[-1] if names else '?'


def diagnostic_lines(res):
    if '--dump-config' in res.spec.get('opts', []):
        # the dumped configuration is printed on stdout as well: only look at
        # the lines ddSMT itself marks as messages
        out = [ln for ln in res.stdout.splitlines()
               if ln.startswith('[ddsmt]')]
        return out + [ln for ln in res.stderr.splitlines()
                      if ln.startswith('[ddSMT ERROR]')
                      or ln.startswith('Traceback')]
    return _diagnostic_lines(res)


def _diagnostic_lines(res):
    """Diagnostics shown to the user: everything on stdout plus error-level
    log lines (info/debug/warning output of -v and its unprefixed
    continuation lines are not diagnostics)."""
    lines = [ln for ln in res.stdout.splitlines() if ln.strip()]
    for ln in res.stderr.splitlines():
        if ln.startswith('[ddSMT ERROR]') or ln.startswith('usage:') or \
                ln.startswith('Traceback'):
            lines.append(ln)
    return lines


class C04(props.Prop):
    id = 'C04'
    title = 'Every run completes: no internal failure on any input, meaningful exit status'
    rule = (
        'case = one whole simulated run on a well-formed, damaged or '
        'unbalanced input (token deletions, arity changes, stray/missing '
        'parentheses, bare top-level tokens) x strategy x -j x verbosity x '
        'launcher (console script / bin/ddsmt) x one optional scenario: usage '
        'error (missing input, missing / non-executable / absent command, '
        'match string absent from the golden output), injected mutator '
        'exception from its n-th call on, OSError on a candidate file, '
        'SIGINT or MemoryError at a main yield point; distinct = trace '
        'digest; non-trivial = a scenario fired, or the input was damaged, or '
        'a mutator raised naturally and was swallowed during the run')
    budget = {'quick': 40, 'thorough': 720}

    def gen(self, rng, tier):
        kind = rng.choice(['wf', 'damaged', 'damaged', 'unbalanced'])
        text = workload.gen_text(rng, small=rng.random() < 0.6)
        dmg = []
        if kind == 'damaged':
            for _ in range(rng.choice([1, 1, 2, 3])):
                text, k = gen_input.damage(
                    rng, text,
                    rng.choice(['del_tok', 'del_sub', 'dup_tok', 'swap',
                                'empty_list', 'del_many', 'bare_top',
                                'odd_index', 'odd_index']))
                dmg.append(k)
        elif kind == 'unbalanced':
            text, k = gen_input.damage(
                rng, text, rng.choice(['stray_close', 'missing_close',
                                       'top_string', 'bare_top']))
            dmg.append(k)
            if rng.random() < 0.3:
                text = text.rstrip('\n') + rng.choice([' foo', ' (assert', ' "abc'])
                dmg.append('eof_tail')
        deep = False
        if rng.random() < 0.05 and len(text) < 1500:
            # nesting deeper than the interpreter's recursion limit (small
            # scripts only: every candidate is rendered and tokenised in full)
            deep = True
            text, k = gen_input.damage(rng, text, 'deep_nest')
            dmg.append(k)
            kind = 'damaged' if kind == 'wf' else kind
        spec = workload.base_spec(rng,
                                  jobs=(1, 1, 2, 3),
                                  model_style=rng.choice(
                                      ['hash', 'mixed', 'contains', 'count']),
                                  out_modes=('', '', '--pretty-print', '--wrap-lines'),
                                  text=text)
        spec['input_kind'] = kind
        spec['damage'] = dmg
        if rng.random() < 0.08:
            # a command whose output is not valid UTF-8 (on the failing
            # inputs, on the others, or on all of them)
            for cn in rng.choice([['bug'], ['ok'], ['bug', 'ok', 'perr']]):
                c = spec['model']['classes'].get(cn)
                if c is not None:
                    k = rng.choice(['out', 'err'])
                    c[k] = c[k] + 'caf\udce9 \udcff\udcfe\n'
            spec['raw_output'] = True
        if deep:
            spec['sched']['line_gap'] = None
            spec['sched']['wall_cap'] = 4.0
        spec['launcher'] = 'bin' if rng.random() < 0.15 else 'main'
        scen = rng.choice(['none', 'none', 'usage', 'mutator', 'mutator',
                           'cand_io', 'interrupt', 'memerr', 'worker_exc'])
        if rng.random() < 0.03:
            scen = 'parser_test'
            spec['opts'].append('--parser-test')
        spec['scenario'] = scen
        if scen == 'usage':
            u = rng.choice(['no_infile', 'no_cmd', 'cmd_not_exec',
                            'cmd_missing', 'match_absent', 'infile_is_dir'])
            if u == 'match_absent':
                spec['opts'] += [rng.choice(['--match-out', '--match-err']),
                                 'string-that-never-occurs']
                spec['usage'] = None
                spec['scenario'] = 'usage:match_absent'
            else:
                spec['usage'] = u
                spec['scenario'] = 'usage:' + u
        elif scen == 'mutator':
            reg = mutator_registry()
            names = sorted(c for (g, c) in reg['options'].values())
            # half of the time a mutator that usually has accepted
            # simplifications (so that failures hit rounds in progress)
            popular = ['EraseNode', 'Constants', 'ReplaceByChild',
                       'ReplaceByVariable', 'MergeWithChildren',
                       'LetElimination', 'SimplifySymbolNames',
                       'BinaryReduction', 'EliminateVariable',
                       'ArithmeticSimplifyConstant', 'BVSimplifyConstants',
                       'SortChildren']
            pick = rng.choice(popular) if rng.random() < 0.6 else rng.choice(
                names)
            strat = spec['opts'][spec['opts'].index('--strategy') + 1] \
                if '--strategy' in spec['opts'] else 'hybrid'
            # call sites of the mutator hooks (names of the calling
            # functions as they appear in a frame: private names unmangled)
            sites = {'ddmin': ['__filter', '__get_substs'],
                     'hierarchical': ['__mutate_node'],
                     'hybrid': ['__filter', '__get_substs', '__mutate_node',
                                '__mutate_node']}[strat]
            spec['faults'] = {
                'mutator': {
                    # a named class, or the k-th class the run consults
                    'cls': (pick if pick in names else rng.choice(names))
                    if rng.random() < 0.55 else '#%d' % rng.choice(
                        [0, 1, 2, 3, 4, 5, 6, 8, 10, 13, 17, 22]),
                    # mostly early enough to fire; some late ones
                    'from': rng.choice([1, 1, 1, 2, 3, 5, 10, 20, 50, 100])
                    if rng.random() < 0.7 else int(2 ** rng.uniform(0, 11)),
                    # transient failures (a mutator that fails on a few
                    # nodes only) as well as permanent ones
                    'count': rng.choice([None, None, 1, 3, 20]),
                    'meth': rng.choice([None, None, 'filter', 'mutations']),
                    # optionally only calls made from one call site fail
                    # (the strategies consult mutators from several places)
                    'site': rng.choice(sites) if rng.random() < 0.4 else None,
                    'exc': rng.choice(['IndexError', 'AttributeError',
                                       'TypeError', 'AssertionError',
                                       'KeyError', 'ValueError']),
                }
            }
        elif scen == 'cand_io':
            spec['faults'] = {
                'cand_io': {
                    'op': rng.choice(['open', 'write']),
                    'at': rng.choice([1, 2, 5, 20, 100]),
                    'errno': rng.choice(['ENOSPC', 'EIO', 'EACCES']),
                    'sticky': rng.random() < 0.3,
                }
            }
        elif scen == 'worker_exc':
            # MemoryError (or another exception) inside a worker / the task
            # feeder at its n-th yield point
            spec['faults'] = {
                'actor_exc': {
                    # only what can really happen anywhere in a worker:
                    # memory exhaustion (an exception raised by the manager
                    # RPC itself would be an environment fault outside the
                    # property)
                    'actor': 'w',
                    'nth': rng.choice([1, 1, 2, 3, 5, 10, 30]),
                    'exc': 'MemoryError',
                }
            }
            if spec['jobs'] == 1 and rng.random() < 0.7:
                spec['opts'] += ['-j', '2']
                spec['jobs'] = 2
        elif scen in ('interrupt', 'memerr'):
            spec['faults'] = {
                'interrupt': [rng.choice([1, 3, 10, 30, 100, 300, 1000]),
                              rng.choice([0, 1])],
                'interrupt_exc': 'KeyboardInterrupt'
                if scen == 'interrupt' else 'MemoryError',
            }
        return {'prop': 'C04', 'runs': [spec]}

    def run(self, case):
        spec = case['runs'][0]
        res = sim.execute(spec)
        v = props.Verdict()
        v.absorb(res)
        spec['choices'] = res.choices
        v.key = res.trace_digest
        rec = res.rec
        scen = spec.get('scenario', 'none')
        launcher = spec.get('launcher', 'main')
        v.probes['scenario.' + scen.split(':')[0]] += 1
        v.probes['input.' + spec.get('input_kind', 'wf')] += 1
        v.probes['launcher.' + launcher] += 1
        natural = len(re.findall(r"<class '\w+'> in (application|check) of",
                                 res.stderr)) + res.stderr.count(
                                     'in ddmin worker')
        v.probes['mutator_exceptions_swallowed'] += natural
        fired_mut = rec.counters.get('fault.mutator_exception', 0)
        fired_io = rec.counters.get('fault.cand_io_error', 0)
        if any(len(e) > 1 and e[1] == 'ACTOR-FAULT' for e in res.log):
            v.faults['worker_exception'] += 1
        interrupted = 'SIGINT' in [e[1] for e in res.log if len(e) > 1]
        if scen == 'worker_exc' and '[ddsmt] memory exhausted' in res.stdout:
            interrupted = True
        if interrupted and scen == 'memerr':
            # a MemoryError may legitimately be absorbed where a candidate is
            # produced or tested (it then costs that candidate only); if it
            # reaches main() the run must end with a non-zero status
            interrupted = '[ddsmt] memory exhausted' in res.stdout or \
                res.outcome == 'exception'
        idle = props.max_idle_rounds(rec)
        v.extra['max_idle_hier_rounds'] = props.retest_bucket(idle)
        if idle > props.IDLE_ROUNDS_BOUND:
            # evaluated for capped runs too: this is how a run that never
            # completes looks from outside
            v.violate('no-completion', 'C04:no-completion:endless-rounds',
                      f'{idle} consecutive hierarchical rounds were generated '
                      f'from the same input without any adoption (scenario '
                      f'{scen}): the run does not complete')
        if res.outcome in ('hang', 'stepcap', 'wallcap', 'deadlock') or str(
                res.outcome).startswith('harness'):
            v.aborted = res.outcome
            return v
        # (a) nothing but SystemExit leaves the launcher
        if res.outcome == 'exception':
            sig, where = exc_signature(res)
            injected = ('injected failure' in str(res.exc)) or (
                fired_io and isinstance(res.exc, OSError))
            v.violate(
                'internal-error',
                f'C04:internal-error:{sig}' + (':injected' if injected else ''),
                f'{type(res.exc).__name__} left main() ({where}): '
                f'{str(res.exc)[:120]}',
                traceback=res.exc_tb[-1500:],
                input_kind=spec.get('input_kind'), damage=spec.get('damage'))
        elif 'Traceback (most recent call last)' in res.stderr:
            v.violate('traceback-printed', 'C04:traceback-printed',
                      'an uncaught traceback was printed',
                      stderr=res.stderr[-800:])
        # (b) exit status
        must_fail = scen.startswith('usage')
        if scen == 'parser_test' and res.outcome != 'exception':
            # only parses and prints: status 0, nothing is run
            if res.status != 0 or rec.inv:
                v.violate('parser-test', 'C04:parser-test',
                          f'--parser-test ended with status {res.status} '
                          f'after {len(rec.inv)} command invocations')
            v.nontrivial = True
            return v
        terminated = interrupted
        if res.outcome != 'exception':
            if must_fail or terminated:
                if res.status == 0:
                    what = scen if must_fail else 'interrupt'
                    v.violate(
                        'exit-status',
                        f'C04:exit-status:0-after-failure:{launcher}-launcher',
                        f'exit status 0 although the run failed ({what})',
                        stdout=res.stdout[-300:], stderr=res.stderr[-300:])
            else:
                if res.status != 0:
                    v.violate(
                        'exit-status',
                        f'C04:exit-status:nonzero-without-failure:{scen.split(":")[0]}',
                        f'exit status {res.status} although neither a usage '
                        f'error nor a terminating fault occurred',
                        stdout=res.stdout[-300:], stderr=res.stderr[-500:])
        # (c) usage errors: one diagnostic line, no candidate run
        if must_fail and res.outcome != 'exception':
            dl = diagnostic_lines(res)
            cands = [d for d in rec.inv
                     if not (d['file'] or '').startswith('$SB/in')]
            if len(dl) != 1:
                v.violate('usage-diagnostic',
                          f'C04:usage-diagnostic:{scen}',
                          f'usage error {scen} produced {len(dl)} diagnostic '
                          f'lines instead of one', lines=dl[:6])
            if cands:
                v.violate('usage-runs-candidates',
                          f'C04:usage-runs-candidates:{scen}',
                          f'{len(cands)} candidates were run although the '
                          f'invocation was erroneous')
        if terminated and res.outcome != 'exception' and res.status != 0:
            dl = diagnostic_lines(res)
            if len(dl) != 1:
                v.violate('interrupt-diagnostic', 'C04:interrupt-diagnostic',
                          f'an interrupt produced {len(dl)} diagnostic lines',
                          lines=dl[:6])
        # (d) fault isolation
        # with an injected failure of M: fixed point of every mutator but M;
        # with mutators that raised by themselves (ill-formed input; logged
        # and swallowed): fixed point of every mutator, where - as in ddSMT -
        # a raising mutator loses its own remaining proposals at that node
        if (fired_mut or (natural and scen in ('none', 'mutator'))) and \
                res.outcome == 'returned' and res.status == 0 and \
                'hierarchical' in rec.finals and not interrupted:
            M = (getattr(res, 'mut_target', None)
                 or spec['faults']['mutator']['cls']) if fired_mut else None
            n, acc, why = enumerate_fixpoint(res, spec,
                                             exclude=(M, ) if M else ())
            v.probes['isolation_proposals_judged'] += n
            v.probes['isolation_runs.' + ('injected' if M else 'natural')] += 1
            if acc is not None:
                who = f'mutator {M} failing' if M else \
                    f'{natural} mutator failures logged during the run'
                v.violate(
                    'fault-isolation', 'C04:fault-isolation' +
                    ('' if M else ':natural'),
                    f'with {who}, the result is not a fixed '
                    f'point of the other mutators: "{acc["mutator"]}" at node '
                    f'{acc["node"]} is accepted - the failure cost more than '
                    f'the failing mutator\'s candidates', **acc)
        v.nontrivial = bool(scen != 'none' or spec.get('damage') or natural)
        v.sample = {
            'opts': spec['opts'],
            'input': spec['input'][:400],
            'input_kind': spec.get('input_kind'),
            'damage': spec.get('damage'),
            'scenario': scen,
            'faults': spec.get('faults'),
            'launcher': launcher,
            'status': res.status,
            'outcome': res.outcome,
        }
        return v
