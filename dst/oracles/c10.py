"""C10 - runs exceeding the time or memory limit are rejected and never stall
ddSMT."""
import math
import resource

import random

from .. import props
from .. import refrule
from .. import reftok
from .. import gen_cmd
from .. import sim
from .. import workload


def fault_model(rng, toks, golden_slow=False):
    d = rng.choice([0.01, 0.02, 0.05])
    spec = gen_cmd.gen_model(rng, toks, style=rng.choice(
        ['contains', 'count', 'subseq', 'mixed', 'hash']), require_wf=False,
        dur=d)
    cl = spec['classes']
    if rng.random() < 0.3:
        # the golden behaviour is a death by SIGKILL / SIGXCPU (OOM killer,
        # CPU limit): exactly what a limit kill looks like
        cl['bug']['exit'] = rng.choice([-9, -9, -24])
    cl['hang'] = {'exit': 0, 'out': '', 'err': '', 'beh': ['hang']}
    if random.Random(reftok.digest(toks)).random() < 0.4:
        # the command is a wrapper script whose child inherited the pipes and
        # blocks: killing the wrapper does not close them, reading the streams
        # to end-of-file after the kill would block for ever
        cl['hang']['beh'] = ['hang', 'orphan']
    cl['spin'] = {'exit': 0, 'out': '', 'err': '',
                  'beh': ['spin', rng.choice([1, 1, 2, 4])]}
    cl['alloc'] = {'exit': rng.choice([1, 134, -6]), 'out': '',
                   'err': 'std::bad_alloc\n', 'beh': ['alloc']}
    cl['sig'] = {'exit': 0, 'out': '', 'err': '',
                 'beh': ['signal', rng.choice([11, 6, 9, 24]), d]}
    cl['slowbug'] = dict(cl['bug'])
    cl['slowbug'] = {**cl['bug'], 'beh': ['normal', 8.0]}
    kinds = rng.sample(['hang', 'spin', 'alloc', 'sig'], rng.choice([1, 2, 4]))
    rules = list(spec['rules'])
    faults = []
    for k in kinds:
        faults.append([{
            'k': 'hash',
            'p': rng.choice([0.03, 0.08, 0.2]),
            'salt': rng.randrange(1 << 30)
        }, k])
    g = {'k': 'golden', 'dig': reftok.digest(toks)}
    if golden_slow:
        # the golden run itself exceeds the limit; so do all 'bug' inputs
        for r in rules:
            if r[1] == 'bug':
                r[1] = 'slowbug'
        spec['rules'] = [[g, 'slowbug']] + faults + rules
    else:
        spec['rules'] = [[g, 'bug']] + faults + rules
    return spec


class C10(props.Prop):
    id = 'C10'
    title = 'Runs exceeding the time or memory limit are rejected and never stall ddSMT'
    rule = (
        'case = one whole simulated run whose command hangs, spins (CPU '
        'limit), allocates without bound (address-space limit) or dies from a '
        'signal on a pseudo-random subset of the candidates, under an '
        'explicit or automatic --timeout, with/without --memout, with/without '
        'resource.prlimit, -j 1..8, both strategies, on the simulated clock; '
        'scenarios: golden run exceeding the limit, match string absent from '
        'the golden output, match string configured and golden run timing '
        'out; distinct = trace digest; non-trivial = at least one command '
        'fault (timeout, limit kill, signal death) fired in the run')
    budget = {'quick': 35, 'thorough': 600}

    def gen(self, rng, tier):
        spec = workload.base_spec(rng,
                                  jobs=(1, 2, 3, 4, 8),
                                  small=rng.random() < 0.7,
                                  out_modes=('', ))
        toks = reftok.tokenize(spec['input'])
        scen = rng.choice(['faults', 'faults', 'faults', 'golden_slow',
                           'match_absent', 'match_golden_timeout',
                           'golden_alloc'])
        spec['scenario'] = scen
        slow = scen in ('golden_slow', 'match_golden_timeout')
        spec['model'] = fault_model(rng, toks, golden_slow=slow)
        if scen == 'golden_alloc':
            # the original input itself makes the command allocate without
            # bound (somebody minimising a memory blow-up with --memout)
            m = spec['model']
            m['classes']['bugalloc'] = dict(m['classes']['alloc'])
            for r_ in m['rules']:
                if r_[1] == 'bug':
                    r_[1] = 'bugalloc'
            spec['opts'] += ['--memout', str(rng.choice([100, 300]))]
        if slow or (rng.random() < 0.5 and scen != 'golden_alloc'):
            spec['opts'] += ['--timeout', str(rng.choice([0.5, 1.0, 2.5]))]
        if rng.random() < 0.5 and scen != 'golden_alloc':
            spec['opts'] += ['--memout', str(rng.choice([100, 2048]))]
        if scen == 'match_absent':
            spec['opts'] += [rng.choice(['--match-out', '--match-err']),
                             'never-printed']
        if scen == 'match_golden_timeout':
            spec['opts'] += [rng.choice(['--match-out', '--match-err']), 'bug']
        if scen in ('faults', 'golden_slow') and rng.random() < 0.3:
            spec['opts'] += rng.choice([['--ignore-output'],
                                        ['--ignore-out', '--ignore-err']])
        elif scen == 'faults' and rng.random() < 0.3:
            o = gen_cmd.CmdModel(spec['model']).on_tokens(toks)
            spec['opts'] += gen_cmd.gen_compare_opts(rng,
                                                     (o.exit, o.out, o.err))
        if scen in ('faults', 'golden_slow') and rng.random() < 0.35:
            # cross-check command that may hang / spin / blow up as well
            spec['model_cc'] = fault_model(rng, toks)
            if rng.random() < 0.3:
                # a cross-check command much slower than the command under
                # test (its own golden run exceeds the main command's limit)
                spec['model_cc']['classes']['bug'] = {
                    **spec['model_cc']['classes']['bug'],
                    'beh': ['normal', rng.choice([2.0, 4.0, 11.0])]}
            if rng.random() < 0.4:
                spec['opts'] += ['--timeout-cc', str(rng.choice([0.5, 1.0, 2.5]))]
            if rng.random() < 0.25:
                # a match string for the cross-check command (its golden run
                # may be cut off by --timeout-cc and have no output at all)
                spec['opts'] += [rng.choice(['--match-out-cc',
                                             '--match-err-cc']),
                                 rng.choice(['bug', 'sat', 'error', 'a'])]
            if rng.random() < 0.4:
                spec['opts'].append('--ignore-output-cc')
        spec['prlimit'] = rng.random() < 0.7
        spec['sched']['line_gap'] = None
        spec['sched']['wall_cap'] = 20.0
        # the time bound (d) is exact only if runnable actors are not
        # descheduled; jitter is exercised by the other checks
        spec['sched']['p_time'] = 0.0
        return {'prop': 'C10', 'runs': [spec]}

    def run(self, case):
        spec = case['runs'][0]
        res = sim.execute(spec)
        v = props.Verdict()
        v.absorb(res)
        spec['choices'] = res.choices
        v.key = res.trace_digest
        rec = res.rec
        scen = spec.get('scenario')
        cfg = refrule.compare_cfg(spec['opts'])
        v.probes['scenario.' + str(scen)] += 1
        if res.outcome in ('hang', 'stepcap', 'wallcap') or str(
                res.outcome).startswith('harness'):
            v.aborted = res.outcome
            return v
        # (c) no stall
        if res.outcome == 'deadlock':
            waiting = [(d['idx'], d['cls'], d.get('behaviour')) for d in rec.inv
                       if d.get('done_seq') is None and not d['killed']]
            v.violate('stall', 'C10:stall',
                      'ddSMT stalled: every actor is blocked and no timer is '
                      'pending (it waits on a command that never finishes)',
                      processes_not_finished=waiting[:5])
            return v
        g, gcc = props.golden_runs(res)
        cands = [d for d in rec.inv
                 if not (d['file'] or '').startswith('$SB/in')]
        golden_inv = [d for d in rec.inv
                      if (d['file'] or '').startswith('$SB/in')]
        golden_main = [d for d in golden_inv if d['which'] != 'cc']
        # (f) match string absent / golden timing out with a match string
        if scen in ('match_absent', 'match_golden_timeout'):
            if res.outcome == 'exception':
                v.violate(
                    'golden-match-crash',
                    f'C10:golden-match-check-crashes:{type(res.exc).__name__}',
                    f'checking the match string against the golden run '
                    f'raised {type(res.exc).__name__}: {res.exc}',
                    traceback=res.exc_tb[-800:])
            else:
                if res.status != 1:
                    v.violate('golden-match-status', 'C10:golden-match-status',
                              f'golden output lacks the match string but the '
                              f'exit status is {res.status}')
                if cands:
                    v.violate('golden-match-continues',
                              'C10:golden-match-continues',
                              f'{len(cands)} candidates were run although the '
                              f'golden output lacks the match string')
            v.nontrivial = True
            v.sample = {'opts': spec['opts'], 'scenario': scen,
                        'status': res.status, 'outcome': res.outcome}
            return v
        if rec.counters.get('self_limit.cpu'):
            v.violate('limit-on-ddsmt', 'C10:cpu-limit-on-ddsmt-process',
                      f'a CPU-time limit was set on a ddSMT process itself '
                      f'({rec.counters["self_limit.cpu"]} times): the kernel '
                      f'kills that process after so many seconds of its own '
                      f'work - a lost pool worker stalls the run, a lost '
                      f'main process ends it')
        if res.outcome == 'exception':
            # no fault is injected into ddSMT itself here: whatever the
            # commands did (hang, die, exceed a limit - on the golden runs
            # too), ddSMT has to go on or stop with a diagnostic
            v.violate('crash', f'C10:crash:{type(res.exc).__name__}',
                      f'{type(res.exc).__name__} left main() in a run whose '
                      f'commands exceed their limits: {str(res.exc)[:120]}',
                      traceback=res.exc_tb[-800:], opts=spec['opts'])
            v.nontrivial = True
            return v
        # (a) verdicts
        nfault = 0
        for c in rec.checks:
            if c['verdict'] is None:
                continue
            invs = [rec.inv[i] for i in c['inv']]
            main = [d for d in invs if d['which'] == 'main']
            if not main or g is None or main[0]['dig'] is None and not main[0]['timed_out']:
                continue
            run = props.run_tuple(main[0])
            faulty = (run[0] == 'timeout' or main[0]['killed']
                      or (main[0].get('behaviour') or ['normal'])[0] != 'normal')
            if faulty:
                nfault += 1
            ccs = [d for d in invs if d['which'] == 'cc']
            run_cc = props.run_tuple(ccs[0]) if ccs else None
            ref = refrule.accepts(cfg, g, run, gcc, run_cc)
            if ccs and ((ccs[0].get('behaviour') or ['normal'])[0] != 'normal'
                        or ccs[0]['timed_out']):
                faulty = True
                nfault += 1
            if c['verdict'] and not ref:
                v.violate(
                    'limit-exceeded-accepted',
                    'C10:limit-exceeded-accepted' if faulty else 'C10:wrong-accept',
                    f'a candidate on which the command '
                    f'{"exceeded a limit / died" if faulty else "did not match"} '
                    f'was accepted although the golden run did not end that way',
                    golden=g, run=run, behaviour=main[0].get('behaviour'))
            if ref and not c['verdict'] and faulty and run[0] == 'timeout' and g[0] == 'timeout':
                v.violate('same-as-golden-rejected', 'C10:same-as-golden-rejected',
                          'golden run and candidate both exceeded the limit '
                          'but the candidate was rejected', golden=g, run=run)
        # adopted candidates must be rule-accepted (outer layer)
        # (b) kills
        for d in rec.inv:
            if d['timed_out'] and not d['killed']:
                v.violate('timeout-not-killed', 'C10:timeout-not-killed',
                          f'the command process of invocation {d["idx"]} '
                          f'timed out but was never killed')
                break
            if d['timed_out'] and d['killed']:
                # killed before the same actor starts its next invocation
                nxt = [e for e in rec.inv if e['actor'] == d['actor']
                       and e['idx'] > d['idx']]
                if nxt and d['kill_seq'] is not None and nxt[0]['seq'] < d['kill_seq']:
                    v.violate('kill-too-late', 'C10:kill-too-late',
                              'the actor went on before killing a timed-out '
                              'command')
                    break
        alive = [d for d in rec.inv
                 if d.get('done_seq') is None and not d['killed']
                 and (d.get('behaviour') or ['normal'])[0] in ('hang', 'spin', 'alloc')
                 and not d['timed_out']]
        # processes never waited for at all
        alive += [d for d in rec.inv if d['timed_out'] and not d['killed']]
        if alive and res.outcome in ('returned', 'sysexit'):
            v.violate('process-left-running', 'C10:process-left-running',
                      f'{len(alive)} command process(es) still run after '
                      f'ddSMT exited', first=alive[0]['idx'])
        # (e) limits
        def_t = None
        if golden_main and golden_main[0].get('t_done') is not None:
            def_t = round((golden_main[0]['t_done'] - golden_main[0]['t0'] + 1) * 1.5, 2)
        want_t = cfg['timeout'] if cfg['timeout'] is not None else def_t
        golden_cc_inv = [d for d in golden_inv if d['which'] == 'cc']
        def_tcc = None
        if golden_cc_inv and golden_cc_inv[0].get('t_done') is not None:
            def_tcc = round((golden_cc_inv[0]['t_done'] - golden_cc_inv[0]['t0'] + 1) * 1.5, 2)
        want_tcc = cfg['timeout_cc'] if cfg['timeout_cc'] is not None else def_tcc
        # the golden run of the cross-check command has the limit given for
        # it, or none (its limit is derived from that very run)
        for d in golden_cc_inv[:1]:
            ta = d.get('timeout_arg')
            if (cfg['timeout_cc'] is None and d.get('timed_out')) or (
                    cfg['timeout_cc'] is not None and
                    (ta is None or abs(ta - cfg['timeout_cc']) > 0.011)):
                v.violate('wrong-time-limit',
                          'C10:wrong-time-limit:cross-check-golden-run',
                          f'the golden run of the cross-check command waited '
                          f'with limit {ta}' + (' and was cut off' if d.get(
                              'timed_out') else '') +
                          f', expected {cfg["timeout_cc"]} (--timeout-cc)')
        for d in cands:
            if d['which'] == 'cc':
                ta = d.get('timeout_arg')
                if want_tcc is not None and (ta is None or abs(ta - want_tcc) > 0.011):
                    v.violate('wrong-time-limit', 'C10:wrong-time-limit:cross-check',
                              f'cross-check run waited with limit {ta}, '
                              f'expected {want_tcc}')
                    break
                continue
            if d['which'] != 'main':
                continue
            ta = d.get('timeout_arg')
            if want_t is not None and (ta is None or abs(ta - want_t) > 0.011):
                v.violate('wrong-time-limit', 'C10:wrong-time-limit',
                          f'candidate run waited with limit {ta}, expected '
                          f'{want_t} ({"--timeout" if cfg["timeout"] else "1.5 x (golden run time + 1 s)"})')
                break
            lim = d['limits']
            cpu = lim.get(str(resource.RLIMIT_CPU))
            if want_t is not None and (cpu is None or cpu[0] != math.ceil(want_t)):
                v.violate('wrong-cpu-limit', 'C10:wrong-cpu-limit',
                          f'CPU limit {cpu} on a candidate run, expected '
                          f'ceil({want_t})')
                break
            mem = lim.get(str(resource.RLIMIT_AS))
            if cfg['memout'] and (mem is None or mem[0] != cfg['memout'] * 1024 * 1024):
                v.violate('wrong-mem-limit', 'C10:wrong-mem-limit',
                          f'address-space limit {mem} on a candidate run, '
                          f'expected {cfg["memout"]} MiB')
                break
            if not cfg['memout'] and mem is not None:
                v.violate('wrong-mem-limit', 'C10:wrong-mem-limit',
                          'address-space limit set without --memout')
                break
        # the golden runs are limited as well (memory always, time if given)
        for d in golden_inv:
            mem = d['limits'].get(str(resource.RLIMIT_AS))
            if cfg['memout'] and (mem is None or mem[0] != cfg['memout'] * 1024 * 1024):
                v.violate('wrong-mem-limit', 'C10:wrong-mem-limit:golden-run',
                          f'the golden run was started with address-space '
                          f'limit {mem}, expected {cfg["memout"]} MiB')
                break
        # (d) bounded total time
        if want_t is not None and golden_inv:
            tg = (golden_inv[0].get('t_done') or golden_inv[0].get('t_kill') or 0) - golden_inv[0]['t0']
            lim = max(want_t, want_tcc or 0)
            bound = max(tg, want_t if golden_inv[0]['timed_out'] else tg) + (len(cands) + 2) * lim + 1.0
            if res.sim_time > bound:
                v.violate('time-bound', 'C10:time-bound',
                          f'the run took {res.sim_time:.2f}s of simulated time, '
                          f'more than golden + tests x limit = {bound:.2f}s')
        v.probes['fault_checks'] += nfault
        v.nontrivial = nfault > 0 or rec.counters.get('timeouts', 0) > 0
        v.sample = {
            'opts': spec['opts'],
            'input': spec['input'][:300],
            'scenario': scen,
            'prlimit': spec['prlimit'],
            'invocations': len(rec.inv),
            'timeouts': rec.counters.get('timeouts', 0),
            'kills': rec.counters.get('kills', 0),
            'sim_time_s': round(res.sim_time, 2),
        }
        return v
