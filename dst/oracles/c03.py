"""C03 - minimisation always terminates: no mutation cycles, no-ops, hanging
mutators."""
import os

from .. import props
from .. import reftok
from .. import gen_cmd
from .. import gen_input
from .. import sim
from .. import workload
from .c02 import mutator_registry

JUMP_BUDGET = 3000000

ERASERS = ['erase-node', 'binary-reduction', 'substitute-children',
           'merge-children', 'constants', 'replace-by-variable',
           'introduce-fresh-variables', 'check-sat-assuming']


def hang_signature(frames):
    """Call chain from the mutator (or strategy) frame inwards, at most four
    functions deep: stable across the exact instruction the budget ran out."""
    if not frames:
        return 'unknown'
    dd = [(f, n) for f, n in frames
          if f in DDSMT_FILES and n not in ('wrapper', 'gen_wrapper')]
    start = 0
    for i, (f, n) in enumerate(dd):
        if f.startswith('mutators_'):
            start = i
    if start == 0:
        for i, (f, n) in enumerate(dd):
            if f.startswith('strategy_'):
                start = i
    chain = []
    for f, n in dd[start:]:
        item = f'{f[:-3]}.{n}'
        if n.startswith('<') and n != '<lambda>':
            continue
        if not chain or chain[-1] != item:
            chain.append(item)
        if len(chain) >= 4:
            break
    return '>'.join(chain) or 'unknown'


DDSMT_FILES = {
    'nodes.py', 'smtlib.py', 'nodeio.py', 'mutators.py', 'mutator_utils.py',
    'mutators_core.py', 'mutators_smtlib.py', 'mutators_boolean.py',
    'mutators_arithmetic.py', 'mutators_bv.py', 'mutators_strings.py',
    'mutators_datatypes.py', 'mutators_fp.py', 'strategy_ddmin.py',
    'strategy_hierarchical.py', 'checker.py', 'cli.py', 'options.py',
    'tmpfiles.py', 'debug_utils.py'
}


# would-be cycles (members written out): the command accepts exactly these.
# Each was found by the sweeps described in DESIGN.md 12; the strategies must
# still stop on them as far as their own safeguards go (ddmin's progress
# measure ends a round without net reduction).
CYCLE_CORPUS = [
    {
        'name': 'term-variable (EliminateVariable + ReplaceByVariable)',
        'decl': '(declare-const x Int)\n(declare-const y Int)\n'
                '(declare-fun p (Int) Bool)\n',
        'members': [
            '(assert (= x (+ y 1)))\n(assert (p (+ y 1)))\n',
            '(assert (= x (+ y 1)))\n(assert (p x))\n',
            '(assert (= (+ y 1) (+ y 1)))\n(assert (p (+ y 1)))\n',
        ],
    },
    {
        'name': 'term-variable, reals (EliminateVariable + ReplaceByVariable)',
        'decl': '(declare-const r Real)\n(declare-const s Real)\n'
                '(declare-fun q (Real) Bool)\n',
        'members': [
            '(assert (= r (* s 2.0)))\n(assert (q (* s 2.0)))\n',
            '(assert (= r (* s 2.0)))\n(assert (q r))\n',
            '(assert (= (* s 2.0) (* s 2.0)))\n(assert (q (* s 2.0)))\n',
        ],
    },
    {
        # a variable equated with a term that contains it two levels down:
        # eliminating the variable (blocked by EliminateVariable's guard on
        # the unchanged tree) and replacing by children lead back to the input
        # (shape from seeded change S64)
        'name': 'self-referential equality (EliminateVariable + ReplaceByChild)',
        'decl': '(declare-const x Int)\n',
        'members': [
            '(assert (= x (+ (* x 2) 1)))\n',
            '(assert (= (+ (* (+ (* x 2) 1) 2) 1) (+ (* x 2) 1)))\n',
            '(assert (= (* (+ (* x 2) 1) 2) (+ (* x 2) 1)))\n',
            '(assert (= (+ (* x 2) 1) (+ (* x 2) 1)))\n',
            '(assert (= (* x 2) (+ (* x 2) 1)))\n',
        ],
        'tail': '',
    },
]


# inputs on which minimisation once grew without end (each found on the
# pinned tree and repaired; DESIGN.md 12).  Unbounded growth has no finite
# witness, so for these entries the check uses a regression bound: the
# repaired tree needs about 100 adoptions and never exceeds 1.15 x the
# original size; 200 adoptions *and* an adopted input larger than 1.6 x the
# original are reported (the run is stopped after 220 adoptions).
GROWTH_CORPUS = [
    {
        'name': 'no-core-hierarchical-bv-fresh-variables',
        'opts': ['--strategy', 'hierarchical', '--no-core'],
        'contains': ['bvadd', 'let', '>'],
        'input': '(set-info :status unsat)\n(set-logic ALL)\n(declare-const a Int)\n(declare-const b Real)\n(declare-fun c () Int)\n(declare-fun f (Int Int) Int)\n(declare-fun bv1 () (_ BitVec 8))\n(declare-const bv2 (_ BitVec 8))\n(define-fun g ((x Int) (y Int)) Int (+ x y 1))\n(define-fun h () Int 5)\n(define-fun rec ((x Int)) Int (rec x))\n(declare-datatype Color ((red) (green) (mk (val Int) (nxt Color))))\n(declare-datatypes ((L 0) (P 0)) (((nil) (cons (hd Int) (tl L))) ((pair (fst Int) (snd L)))))\n(declare-const col Color)\n(declare-const lst L)\n(assert (> (g a c) (f a (+ a 2 3))))\n(assert (let ((z (+ a 1)) (w (bvadd bv1 bv2))) (and (> z 0) (= w ((_ zero_extend 0) bv1)))))\n(assert (forall ((q Int) (r Real)) (exists ((s Int)) (=> (> q s) (> (to_real q) r)))))\n(assert (= ((_ extract 3 0) bv1) ((_ extract 7 4) (bvmul bv1 bv2 #x03))))\n(assert (or (= col red) (= (val col) h) (= lst (cons 1 nil))))\n(assert (and (> b 2.5) (< (* 2 a) (- 7)) (distinct a c 3)))\n(assert (= (ite (> a 0) (bvnot bv1) (bvneg bv2)) #b00001111))\n(check-sat)\n(get-model)\n(exit)\n',
    },
]


class C03(props.Prop):
    id = 'C03'
    title = 'Minimisation always terminates: no mutation cycles, no-ops, hanging mutators'
    rule = (
        'case = one whole simulated run against an adversarial command model '
        '(hash-sparse acceptance turns ddSMT into a random walk on the '
        'proposal graph; erasing mutators often disabled; inputs biased to '
        'the shapes named in the anchors; 40 % neighbourhood adversaries, '
        '12 % complexity-stress inputs with terms nested 12-48 deep or 30-120 '
        'wide, 10 % corpus of would-be cycles) under a deterministic per-step '
        'budget (sys.monitoring: jumps and calls between two yield points; '
        '3 M + 30 n^2 for n tokens); distinct = trace digest; non-trivial = the run adopted >= 2 '
        'simplifications (a chain in which a revisit could occur)')
    budget = {'quick': 40, 'thorough': 720}

    def gen(self, rng, tier):
        risky = rng.random() < 0.7
        text = gen_input.gen_risky(rng) if risky else workload.gen_text(
            rng, small=True)
        deep = rng.random() < 0.12 or os.environ.get('DST_C03_FOCUS') == 'deep'
        if deep:
            # complexity stress: deeply nested / very wide terms
            text = gen_input.gen_deep(rng)
        spec = workload.base_spec(
            rng,
            jobs=(1, 1, 2, 3),
            model_style=rng.choice(['hash', 'hash', 'hash', 'mixed']),
            out_modes=('', ),
            text=text)
        # adversarial acceptance probability
        for rule in spec['model']['rules']:
            _set_p(rule[0], rng.choice([0.03, 0.1, 0.2, 0.35, 0.5]))
        if rng.random() < 0.4 and len(spec['input']) <= 700:
            # neighbourhood adversary (on inputs of moderate size: nothing is
            # accepted that erases anything, so every proposal for every node
            # is tested and the run time grows quadratically): accepts every input whose tokens differ
            # from the original's by at most m (keeps the structure, accepts
            # small rewrites in both directions: inverse pairs of mutators
            # then cycle)
            toks = list(reftok.tokenize(spec['input']))
            near = {'k': 'near', 'toks': toks,
                    'm': rng.choice([2, 3, 4, 6, 10]),
                    # nothing (or little) can be erased: only rewrites of
                    # about the same size are accepted
                    'len_tol': rng.choice([0, 0, 1, 2, 4])}
            if rng.random() < 0.5:
                near = {'k': 'and', 'a': [near, {'k': 'wf'}]}
            spec['model']['rules'] = [[near, 'bug']]
        reg = mutator_registry()
        k = rng.random()
        if k < 0.35:
            # only a few rewriting mutators
            names = [o for o in sorted(reg['options']) if o not in ERASERS]
            pick = rng.sample(names, rng.randint(1, 6))
            spec['opts'] += ['--disable-all'] + [f'--{o}' for o in pick]
        elif k < 0.7:
            spec['opts'] += [f'--no-{o}' for o in rng.sample(
                ERASERS, rng.randint(2, len(ERASERS)))]
        if rng.random() < 0.2:
            spec['opts'].append('--check-loops')
        if rng.random() < 0.1:
            # a command that accepts exactly the members of a would-be cycle
            c = rng.choice(CYCLE_CORPUS)
            tail = c.get('tail', '(check-sat)\n')
            texts = [c['decl'] + m + tail for m in c['members']]
            spec = workload.base_spec(
                rng, jobs=(1, 1, 2), out_modes=('', ),
                strategies=('ddmin', 'ddmin', 'hybrid', 'hierarchical'),
                text=texts[0])
            spec['model']['rules'] = [[{
                'k': 'member',
                'digs': [reftok.digest(reftok.tokenize(t)) for t in texts]
            }, 'bug']]
            spec['corpus'] = c['name']
            # the strategies without a progress measure walk a listed cycle
            # for ever: a few rounds are enough for every rule
            spec['stop_after_writes'] = 60
        spec['jump_budget'] = JUMP_BUDGET
        spec['sched']['step_cap'] = 1500000
        spec['sched']['wall_cap'] = 12.0
        if rng.random() < 0.015:
            g = rng.choice(GROWTH_CORPUS)
            spec = workload.base_spec(rng, jobs=(1, 2, 4), out_modes=('', ),
                                      strategies=('hierarchical', ),
                                      text=g['input'])
            spec['opts'] = g['opts'] + ['-j', str(spec['jobs'])]
            spec['cmd_args'] = []
            spec['model']['rules'] = [[{'k': 'contains',
                                        'toks': g['contains']}, 'bug']]
            spec['growth_entry'] = g['name']
            # deterministic end of a growing run (the repaired tree stops
            # after about 100 adoptions by itself)
            spec['stop_after_writes'] = 220
            spec['jump_budget'] = JUMP_BUDGET
            spec['sched']['step_cap'] = 10**7
            spec['sched']['wall_cap'] = 40.0
        return {'prop': 'C03', 'runs': [spec]}

    def find_revisit(self, res, v, strat, writes):
        rec = res.rec
        spec = res.spec
        seen = {}
        # inputs are compared structurally, comments and empty leaves included
        # (erasing a comment is progress although the token sequence stays)
        if rec.strategy_inputs:
            seen[rec.strategy_inputs[0][2]] = 0
        spans = rec.reduce_spans
        prev = rec.strategy_inputs[0][2] if rec.strategy_inputs else None
        # simplification (set of substitution keys) behind every step
        fp_of_step = {}
        for a in rec.applies:
            if len(a) > 8:
                fp_of_step.setdefault((a[7], a[6]), []).append((a[0], a[8]))
        adopted_fps = set()
        if any(w.get('fallback') for w in writes):
            # the adopted inputs are known from the file only (write probe
            # not in place): equal token sequences need not be equal inputs
            v.probes['rule_skipped.revisit'] += 1
            return False
        for k, w in enumerate(writes, 1):
            d = w['sdig']
            fp = w.get('ddmin_task')
            phase = 'ddmin' if (strat == 'ddmin' or (
                strat == 'hybrid' and not any(
                    s[0] == 'hierarchical' and s[1] <= w['seq0']
                    for s in spans) and rec.counters.get(
                        'reduce.hierarchical', 0) == 0) or _in_ddmin(
                            rec, w)) else 'hierarchical'
            if d in seen:
                noop = d == prev
                if noop and phase == 'ddmin' and (fp is None
                                                  or fp not in adopted_fps):
                    # stale group whose nodes have vanished: not a proposal
                    # for the then-current input
                    v.probes['ddmin_vacuous_group_adopted'] += 1
                elif noop and phase == 'ddmin':
                    v.violate(
                        'revisit', 'C03:revisit:no-op:ddmin-group-adopted-twice',
                        f'adopted input #{k} equals its predecessor: a group '
                        f'of simplifications that had already been adopted '
                        f'was proposed and adopted again (the round went '
                        f'backwards)',
                        write_index=k, input=rec.text(w['dig'])[:300])
                    return True
                else:
                    by_step = {}
                    for a in rec.applies:
                        if len(a) > 7:
                            by_step.setdefault((a[7], a[6]), a[5] or '?')
                    first = seen[d]
                    chain = ([rec.strategy_inputs[0][2]] if rec.strategy_inputs
                             else [None]) + [x['sdig'] for x in writes]
                    muts = sorted({
                        by_step.get((chain[i - 1], chain[i]), '?')
                        for i in range(first + 1, k + 1)
                    })
                    shape = None
                    if not noop:
                        try:
                            members = [rec.text(x['dig']).split(' ')
                                       for x in writes[first - 1 if first else 0:k]]
                            if len(members) >= 2 and all(
                                    _changes_inside(members[i], members[i + 1],
                                                    'fp')
                                    for i in range(len(members) - 1)):
                                shape = 'inside-fp-literal'
                        except Exception:
                            shape = None
                    v.violate(
                        'revisit',
                        f'C03:revisit:cycle:{shape}' if shape else
                        f'C03:revisit:{"no-op" if noop else "cycle"}:'
                        f'{"+".join(muts)}',
                        f'adopted input #{k} equals '
                        f'{"its predecessor (a no-op was accepted)" if noop else f"the earlier adopted input #{seen[d]}"}'
                        f' - the chain of simplifications is cyclic',
                        write_index=k,
                        mutators_on_cycle=muts,
                        phase=phase,
                        via_check_loops=bool(w.get('virtual')),
                        input=rec.text(w['dig'])[:300])
                    return True
            seen.setdefault(d, k)
            if fp is not None:
                adopted_fps.add(fp)
            if w['completed']:
                prev = d
        return False


    def run(self, case):
        spec = case['runs'][0]
        res = sim.execute(spec)
        v = props.Verdict()
        v.absorb(res)
        spec['choices'] = res.choices
        v.key = res.trace_digest
        rec = res.rec
        strat = spec.get('strategy')
        # (c) hanging step
        if res.outcome == 'hang' and res.hang_kind != 'jumps':
            # real-time watchdog on a step that is merely slow (huge input):
            # inconclusive, only the deterministic jump budget decides
            v.aborted = 'hang-watchdog'
        elif res.outcome == 'hang':
            sig = hang_signature(res.hang_frames)
            v.violate(
                'hang', f'C03:hang:{sig}',
                f'actor {res.hang_actor} exceeded the budget of '
                f'{spec.get("jump_budget")} jumps without reaching a yield '
                f'point (a single step does not terminate)',
                stack=res.hang_stack)
        elif res.outcome in ('stepcap', 'wallcap', 'deadlock') or str(
                res.outcome).startswith('harness'):
            v.aborted = res.outcome
        elif res.outcome == 'exception':
            if 'has already been seen before' not in res.stderr:
                v.aborted = 'exception'
        # (a) no revisit
        found = self.find_revisit(res, v, strat, rec.writes)
        if (not found and res.outcome == 'exception'
                and 'has already been seen before' in res.stderr):
            # --check-loops made ddSMT assert on a revisit before the
            # revisited input was written: add it to the chain as a virtual
            # adoption so that it is attributed like any other revisit
            v.probes['check_loops_fired'] += 1
            # the adoption that made ddSMT stop is one of the candidates
            # accepted since the last output write (a worker may have gone on
            # and accepted others in the meantime)
            since = rec.writes[-1]['seq0'] if rec.writes else -1
            last_ok = [c for c in rec.checks
                       if c['verdict'] and (c['seq1'] or 0) > since]
            prev_s = rec.writes[-1]['sdig'] if rec.writes else (
                rec.strategy_inputs[0][2] if rec.strategy_inputs else None)
            for c in reversed(last_ok):
                virt = None
                for a in reversed(rec.applies):
                    if len(a) > 7 and a[3] == c['dig'] and a[7] == prev_s:
                        virt = {'dig': a[3], 'sdig': a[6], 'seq0': a[0],
                                'completed': True, 'virtual': True,
                                'actor': 'main'}
                        break
                if virt is None:
                    continue
                trial = props.Verdict()
                if self.find_revisit(res, trial, strat, rec.writes + [virt]):
                    found = self.find_revisit(res, v, strat,
                                              rec.writes + [virt])
                    break
            if not found:
                v.violate('revisit', 'C03:revisit:check-loops:unattributed',
                          'ddSMT\'s own loop checker fired: an input was '
                          'visited twice')
        # (a') ddmin must stop walking a cycle: its progress measure ends the
        # outer loop after a round without net reduction, so the same input is
        # adopted a few times at most (the listed cycles are walked twice)
        if strat in ('ddmin', 'hybrid'):
            cnt = {}
            last = None
            for w in rec.writes:
                if _in_ddmin(rec, w) or strat == 'ddmin':
                    # entries into an input from a different one (vacuous
                    # re-adoptions of the current input do not count)
                    if w['sdig'] != last:
                        cnt[w['sdig']] = cnt.get(w['sdig'], 0) + 1
                    last = w['sdig']
            distinct_steps = len(cnt)
            worst = max(cnt.values()) if cnt else 0
            if worst >= 8 and distinct_steps >= 2 and not any(
                    x['sig'].startswith('C03:revisit:no-op') for x in v.violations):
                v.violate(
                    'ddmin-keeps-cycling', 'C03:ddmin-keeps-cycling',
                    f'ddmin adopted the same input {worst} times: it keeps '
                    f'walking a cycle of simplifications instead of stopping '
                    f'after a round without net reduction',
                    times=worst)
        # (b') growth regression on the corpus of inputs that once grew forever
        if spec.get('growth_entry') and len(rec.writes) >= 200:
            orig = len(' '.join(reftok.tokenize(spec['input'])))
            big = max(len(rec.text(w['dig'])) for w in rec.writes)
            v.probes['growth_entry_runs'] += 1
            if big > 1.6 * orig:
                v.violate(
                    'growth', f'C03:growth-regression:{spec["growth_entry"]}',
                    f'{len(rec.writes)} simplifications adopted and the '
                    f'input has grown from {orig} to {big} characters (the '
                    f'run was cut: {res.outcome}); this input once grew '
                    f'without end, the repaired tree stops after about 100 '
                    f'adoptions', adopted=len(rec.writes), size=big,
                    original=orig)
                v.aborted = None
        elif spec.get('growth_entry'):
            v.probes['growth_entry_runs'] += 1
        idle = props.max_idle_rounds(rec)
        v.extra['max_idle_hier_rounds'] = props.retest_bucket(idle)
        if idle > props.IDLE_ROUNDS_BOUND:
            v.violate('endless-rounds', 'C03:endless-rounds:hierarchical',
                      f'{idle} consecutive hierarchical rounds were generated '
                      f'from the same input without any adoption (a pass '
                      f'makes at most two): testing goes on without progress')
        nre, _dg = props.max_retests(rec)
        v.extra['max_retests_of_one_candidate'] = props.retest_bucket(nre)
        # (b) bounded liveness
        bound = 20 * len(spec['input']) + 1000
        if len(rec.writes) > bound:
            v.violate('too-many-steps', f'C03:too-many-steps:{strat}',
                      f'{len(rec.writes)} adopted steps for an input of '
                      f'{len(spec["input"])} characters (bound {bound})')
        # reach of the step budget: largest number of jump/call events
        # between two yield points, relative to the budget in force
        ev = getattr(res, 'max_step_events', 0)
        if ev > 0:
            lim = spec.get('jump_budget', 0) + 30 * rec.max_tokens**2
            v.extra['max_step_events_pct_of_budget'] = (
                '>50' if ev * 2 > lim else '>20' if ev * 5 > lim else
                '>5' if ev * 20 > lim else '<=5')
        v.probes['adopted_steps'] += len(rec.writes)
        v.probes['max_chain'] = max(v.probes.get('max_chain', 0),
                                    len(rec.writes))
        v.extra['chain_len_max'] = 0
        v.nontrivial = len(rec.writes) >= 2
        if res.status == 0 and res.outcome == 'returned':
            v.probes['completed'] += 1
        v.sample = {
            'opts': spec['opts'],
            'input': spec['input'][:500],
            'model_rules': spec['model']['rules'],
            'adopted_steps': len(rec.writes),
            'outcome': res.outcome,
        }
        return v


def _changes_inside(a, b, head):
    """Do the token lists a and b differ only inside parenthesised terms
    whose first token is ``head`` (in a and in b)?"""
    import difflib

    def enclosed(toks):
        # for every position: is some enclosing list headed by ``head``?
        res = []
        stack = []
        for i, t in enumerate(toks):
            if t == '(':
                nxt = toks[i + 1] if i + 1 < len(toks) else ''
                stack.append(nxt == head)
                res.append(any(stack[:-1]) or stack[-1])
            elif t == ')':
                res.append(any(stack))
                if stack:
                    stack.pop()
            else:
                res.append(any(stack))
        return res

    ea, eb = enclosed(a), enclosed(b)
    sm = difflib.SequenceMatcher(a=a, b=b, autojunk=False)
    changed = False
    for tag, i1, i2, j1, j2 in sm.get_opcodes():
        if tag == 'equal':
            continue
        changed = True
        if not all(ea[i1:i2]) or not all(eb[j1:j2]):
            return False
        if i1 == i2 and not (i1 < len(ea) and ea[i1] or i1 > 0 and ea[i1 - 1]):
            return False
        if j1 == j2 and not (j1 < len(eb) and eb[j1] or j1 > 0 and eb[j1 - 1]):
            return False
    return changed


def _in_ddmin(rec, w):
    """Was this output write made by the ddmin strategy?"""
    starts = getattr(rec, 'reduce_starts', [])
    cur = None
    for which, seq in starts:
        if seq <= w['seq0']:
            cur = which
    return cur == 'ddmin'


def _set_p(pred, p):
    if pred.get('k') == 'hash':
        pred['p'] = p
    for q in pred.get('a', []) if isinstance(pred.get('a'), list) else (
            [pred['a']] if isinstance(pred.get('a'), dict) else []):
        _set_p(q, p)
