"""C06 - the output file is a complete accepted input at every instant.

Fault enumeration nested in seeded sampling: a run is executed fault-free
while an independent reader looks at the output file at every boundary inside
every rewrite (this is also what a SIGKILL at that boundary leaves behind);
then the same run is replayed with SIGINT delivered at every main-actor yield
point inside the rewrites and at a sample of the other points.
"""
import copy
import os
import random
import time

from .. import props
from .. import sim
from .. import workload


def seams_outpath(res):
    return 'out' + res.spec.get('ext', '.smt2')


def _kind(data, complete):
    if data is None:
        return 'absent'
    if data == b'':
        return 'empty'
    for c in complete:
        if c is not None and c.startswith(data):
            return 'truncated'
    return 'mixed'


class C06(props.Prop):
    id = 'C06'
    level = 'fault_enumeration'
    title = 'The output file is a complete accepted input at every instant'
    budget = {'quick': 40, 'thorough': 720}
    rule = (
        'case = one sampled run (input, command model, strategy, -j, output '
        'mode, schedule) x every crash/observation point of its output '
        'rewrites: (i) reader/SIGKILL observation at every main-actor yield '
        'point while a rewrite is in progress (each low-level write, flush, '
        'close, rename and each source line of the nodeio writers), (ii) one '
        'replay with SIGINT (sometimes MemoryError) at each such point and at '
        'a sample of points outside rewrites; evaluations = observations + '
        'interrupt replays; distinct non-trivial = distinct (run trace digest, '
        'crash point) pairs whose point lies inside a rewrite')

    def gen(self, rng, tier):
        big = rng.random() < (0.0 if tier == 'quick' else 0.2)
        feats = None
        text = None
        if big:
            text = workload.gen_input.gen_script(
                rng,
                feats={'bv', 'int', 'longtok', 'let', 'comments', 'quoted'},
                size=rng.choice([25, 40]))
        spec = workload.base_spec(
            rng,
            jobs=(1, 1, 2, 3),
            small=not big,
            model_style=rng.choice(['contains', 'count', 'subseq', 'mixed']),
            text=text)
        spec['observe_output'] = True
        spec['io_lines'] = True
        # the temporary directory may be on another file system ($TMPDIR)
        spec['xdev'] = rng.random() < 0.5
        cap = 40 if tier == 'quick' else 400
        return {
            'prop': 'C06',
            'runs': [spec],
            'point_seed': rng.randrange(1 << 30),
            'max_points': cap,
            # wall-clock cap per case (bounds how many points are replayed,
            # never what a replay does)
            'case_budget': 6 if tier == 'quick' else 90,
            # crash-restart: SIGKILL inside a rewrite, then a second run with
            # the same output file name
            'restarts': rng.choice([0, 0, 1, 2]) if tier == 'quick' else
            rng.choice([0, 2, 4]),
            # torn write / failing close (full disk, I/O error) at that many
            # low-level operations on the output file
            'disk_faults': 3 if tier == 'quick' else 12,
        }

    def focus(self, case, viol):
        pt = (viol.get('detail') or {}).get('point')
        c = copy.deepcopy(case)
        if pt is not None and pt[0] == 'disk':
            c['points'] = []
            c['disk_points'] = [pt[1:]]
        else:
            c['points'] = [pt] if pt is not None else []
            c['disk_points'] = []
        return c

    # ---------------------------------------------------------------------------
    def check_observations(self, res, v, complete_ref, tag, point=None):
        rec = res.rec
        comp = rec.complete_texts
        bad = 0
        for seq, nyield, otag, done, inprog, data in rec.obs:
            allowed = []
            allowed.append(comp[done - 1] if done >= 1 else None)
            if inprog:
                nxt = comp[done] if done < len(comp) else (
                    complete_ref[done] if done < len(complete_ref) else None)
                allowed.append(nxt)
                if done >= len(comp) and done >= len(complete_ref):
                    continue  # cannot judge: no reference for this rewrite
            elif (rec.rewrite_interrupted and done == rec.rewrites_done
                  and done < len(complete_ref)):
                # after an interrupt inside rewrite done+1 the new text may
                # already have been put in place
                allowed.append(complete_ref[done])
            if data in allowed:
                continue
            bad += 1
            if bad > 1:
                continue
            kind = _kind(data, [c for c in allowed if c is not None] +
                         list(comp))
            v.violate(
                'torn-observation',
                f'C06:reader-sees-{kind}-file',
                f'a concurrent reader (or SIGKILL) at main yield point '
                f'{nyield} ({otag}) during rewrite #{done + 1} sees a file '
                f'that is neither the previous nor the new accepted input '
                f'({kind})',
                point=point,
                rewrite=done + 1,
                boundary=otag,
                seen=(data or b'')[:200].decode(errors='replace'),
                expected_one_of=[(a or b'')[:120].decode(errors='replace')
                                 for a in allowed])
        v.probes['observations'] += rec.n_obs
        v.probes['observations_torn'] += bad
        return bad

    def check_file_is_adopted_input(self, res, v, point):
        """After a completed rewrite the file holds exactly the adopted input
        (not the new text followed by something else)."""
        for k, w in enumerate(res.rec.writes, 1):
            if w.get('completed') and w.get('file_matches_tree') is False:
                data = res.rec.complete_texts[k - 1] if k - 1 < len(
                    res.rec.complete_texts) else b''
                v.violate(
                    'file-differs-from-adopted-input',
                    'C06:rewritten-file-is-not-the-adopted-input',
                    f'after rewrite #{k} the output file does not hold the '
                    f'adopted input (mixed with other content)',
                    point=point, rewrite=k,
                    adopted=res.rec.text(w['dig'])[:200],
                    file=(data or b'')[-200:].decode(errors='replace'))
                return

    def restart_after_kill(self, case, spec, res, v):
        """SIGKILL at a point inside a rewrite, then ddSMT is started again
        with the same output file name on (a prefix of) the work: whatever the
        killed run left on disk must not end up in the new run's output."""
        rec = res.rec
        if not rec.snapshots or not rec.complete_texts:
            return
        first = rec.complete_texts[0]
        if not first:
            return
        for nyield, snap in rec.snapshots:
            s2 = dict(spec)
            s2.pop('choices', None)
            s2['faults'] = {}
            s2['snapshots'] = 0
            # continue from the first accepted input of the killed run
            s2['input'] = first.decode(errors='replace')
            s2['preexisting'] = {fn: data.decode('latin-1')
                                 for fn, data in snap.items()}
            s2['seed'] = (spec.get('seed', 0) * 31 + nyield) % (1 << 62)
            r2 = sim.execute(s2)
            v.absorb(r2)
            v.evaluations += 1
            v.faults['sigkill_then_restart'] += 1
            if str(r2.outcome).startswith('harness'):
                continue
            self.check_file_is_adopted_input(r2, v, [nyield, 'restart'])
            pre = snap.get(os.path.basename(seams_outpath(r2)))
            # observations: pre-existing complete file, or own complete texts
            comp = r2.rec.complete_texts
            for seq, ny, otag, done, inprog, data in r2.rec.obs:
                allowed = [comp[done - 1] if done >= 1 else pre]
                if inprog and done < len(comp):
                    allowed.append(comp[done])
                elif inprog:
                    continue
                if data not in allowed:
                    v.violate(
                        'torn-observation-after-restart',
                        'C06:reader-sees-torn-file-after-restart',
                        f'second run after a SIGKILL at point {nyield}: a '
                        f'reader sees a file that is neither the file the '
                        f'killed run left nor an accepted input of this run',
                        point=[nyield, 'restart'],
                        seen=(data or b'')[:200].decode(errors='replace'))
                    break

    def check_written_before_waiting(self, res, v):
        """Once main has adopted a result (in the parallel paths it raises the
        abort flag at that moment) the output file must be brought up to date
        before main goes back to waiting for other processes: otherwise the
        file is stale for as long as the checks in flight take, and an
        interrupt there loses the accepted input."""
        rec = res.rec
        done_at = sorted(w['seq1'] for w in rec.writes
                         if w.get('seq1') is not None)
        pending = None
        for i, e in enumerate(res.log):
            if e[0] != 'main' or len(e) < 2:
                continue
            if e[1] == 'ev.set':
                if pending is None:
                    pending = i
            elif e[1] in ('job.next', 'pool.join') and pending is not None:
                if any(pending < s <= i + 1 for s in done_at):
                    pending = None
                    continue
                v.violate(
                    'stale-while-waiting',
                    'C06:adopted-input-not-written-before-waiting',
                    'main adopted an accepted input (abort flag raised) and '
                    'went back to waiting for running checks without having '
                    'written it to the output file: the file is stale (or '
                    'missing) for the duration of those checks and an '
                    'interrupt there does not leave the last accepted input',
                    point=None, adoption_event=pending, wait_event=i)
                return
            if pending is not None and any(pending < s <= i + 1
                                           for s in done_at):
                pending = None

    def run(self, case):
        spec = case['runs'][0]
        v = props.Verdict()
        spec_a = dict(spec)
        spec_a['faults'] = {}
        spec_a['snapshots'] = case.get('restarts', 0)
        res = sim.execute(spec_a)
        v.absorb(res)
        spec['choices'] = res.choices
        rec = res.rec
        if res.outcome in ('hang', 'stepcap', 'wallcap', 'deadlock') or str(
                res.outcome).startswith('harness'):
            v.aborted = res.outcome
            v.key = res.trace_digest
            return v
        if res.outcome == 'exception':
            v.aborted = 'exception'
        complete = list(rec.complete_texts)
        self.check_observations(res, v, complete, 'fault-free')
        if not res.input_same or not res.input_mtime_same:
            v.violate('input-modified', 'C06:input-modified',
                      'the input file was modified')
        if rec.input_write_opens:
            v.violate('input-opened-for-writing',
                      'C06:input-opened-for-writing',
                      'the input file was opened for writing')
        if res.tmp_left_after_exit:
            v.violate('tmpdir-left', 'C06:tmpdir-left:normal-exit',
                      f'temporary directory left after exit: '
                      f'{res.tmp_left_after_exit}')
        self.check_written_before_waiting(res, v)
        self.check_file_is_adopted_input(res, v, None)
        n_main = rec.main_nyield
        windows = [(a, b) for a, b in rec.rewrite_windows if b is not None]
        inside = list(rec.points_in_rewrite)
        inside_set = set(inside)
        v.probes['rewrites'] += len(windows)
        v.probes['points_in_rewrites'] += len(inside)
        v.evaluations = rec.n_obs
        # -- interrupt replays -------------------------------------------------------
        prng = random.Random(case.get('point_seed', 0))
        if case.get('points') is not None:
            points = [tuple(p) for p in case['points'] if p is not None]
        else:
            cap = case.get('max_points', 40)
            pts_in = [(k, 0) for k in inside]
            if len(pts_in) > cap:
                # first and last boundary of each rewrite, then a sample
                must = set()
                for a, b in windows:
                    must.add((a + 1, 0))
                    must.add((b, 0))
                must = [p for p in pts_in if p in must][:cap // 2]
                must_set = set(must)
                rest = [p for p in pts_in if p not in must_set]
                pts_in = must + prng.sample(rest,
                                            min(len(rest), cap - len(must)))
            n_out = max(2, min(cap // 4, 10))
            outside = [k for k in range(1, n_main + 1) if k not in inside_set]
            pts_out = [(k, prng.choice([0, 1]))
                       for k in prng.sample(outside, min(len(outside), n_out))]
            points = sorted(set(pts_in + pts_out))
        ntkeys = set()
        t_case = time.time()
        for (k, phase) in points:
            if time.time() - t_case > case.get('case_budget', 6):
                v.probes['points_skipped_for_time'] += 1
                continue
            sb = dict(spec)
            sb['choices'] = res.choices
            exc = 'KeyboardInterrupt'
            if case.get('points') is None and prng.random() < 0.1:
                exc = 'MemoryError'
            if case.get('interrupt_exc'):
                exc = case['interrupt_exc']
            sb['faults'] = {'interrupt': [k, phase], 'interrupt_exc': exc}
            rb = sim.execute(sb)
            v.absorb(rb)
            v.evaluations += 1
            v.faults['sigint' if exc == 'KeyboardInterrupt' else
                     'memory_error'] += 1
            in_rw = k in inside_set
            if in_rw:
                ntkeys.add((res.trace_digest, k))
                v.faults['interrupt_inside_rewrite'] += 1
            if str(rb.outcome).startswith('harness'):
                v.probes['interrupt_harness_problem'] += 1
                continue
            recb = rb.rec
            # observations before the interrupt obey the same rule
            self.check_observations(rb, v, complete, 'interrupted',
                                    point=[k, phase])
            done = recb.rewrites_done
            allowed = [recb.complete_texts[done - 1] if done >= 1 else None]
            if recb.rewrite_interrupted:
                if done < len(complete):
                    allowed.append(complete[done])
                v.probes['interrupted_mid_rewrite'] += 1
            final = rb.final_out
            if final not in allowed:
                kind = _kind(final, [a for a in allowed if a is not None] +
                             complete)
                v.violate(
                    'torn-after-interrupt',
                    f'C06:interrupt-leaves-{kind}-file',
                    f'after {exc} at main yield point {k} (phase {phase}; '
                    f'{"inside" if in_rw else "outside"} a rewrite) the '
                    f'output file is not the last accepted input ({kind})',
                    point=[k, phase],
                    left=(final or b'')[:200].decode(errors='replace'),
                    expected_one_of=[(a or b'')[:120].decode(errors='replace')
                                     for a in allowed])
            if rb.tmp_left_after_exit:
                v.violate(
                    'tmpdir-left', 'C06:tmpdir-left:after-interrupt',
                    f'temporary directory left after {exc} at point {k}: '
                    f'{rb.tmp_left_after_exit}',
                    point=[k, phase])
            if not rb.input_same or recb.input_write_opens:
                v.violate('input-modified', 'C06:input-modified',
                          'the input file was modified / opened for writing',
                          point=[k, phase])
            if rb.outcome == 'returned' and rb.status == 1 and (
                    '[ddsmt] interrupted' in rb.stdout
                    or '[ddsmt] memory exhausted' in rb.stdout):
                v.probes['interrupt_reported'] += 1
            elif rb.outcome == 'returned' and rb.status == 0:
                v.probes['interrupt_after_completion_or_swallowed'] += 1
            else:
                v.probes[f'interrupt_outcome.{rb.outcome}'] += 1
            if rb.nthreads > 2:
                v.probes['threads_left'] += 1
        # -- disk faults inside rewrites ----------------------------------------------
        n_ops = rec.counters.get('out_file_lowlevel_ops', 0)
        if case.get('disk_points') is not None:
            dpoints = [tuple(p) for p in case['disk_points']]
        elif case.get('points') is not None:
            dpoints = []
        else:
            nd = min(n_ops, case.get('disk_faults', 3))
            dpoints = [(k, prng.choice(['ENOSPC', 'EIO']),
                        prng.random() < 0.3)
                       for k in sorted(prng.sample(range(1, n_ops + 1), nd))]
        for (k, err, sticky) in dpoints:
            if time.time() - t_case > case.get('case_budget', 6) * 1.5:
                v.probes['points_skipped_for_time'] += 1
                continue
            sb = dict(spec)
            sb['choices'] = res.choices
            sb['faults'] = {'out_io': {'at': k, 'errno': err,
                                       'sticky': sticky}}
            rb = sim.execute(sb)
            v.absorb(rb)
            v.evaluations += 1
            if str(rb.outcome).startswith('harness'):
                v.probes['interrupt_harness_problem'] += 1
                continue
            recb = rb.rec
            fired = sum(c for kk, c in recb.counters.items()
                        if kk.startswith('fault.out_io_error'))
            if not fired:
                continue
            ntkeys.add((res.trace_digest, 'disk', k))
            pt = ['disk', k, err, sticky]
            self.check_observations(rb, v, complete, 'disk-fault', point=pt)
            self.check_file_is_adopted_input(rb, v, pt)
            done = recb.rewrites_done
            allowed = [recb.complete_texts[done - 1] if done >= 1 else None]
            if recb.rewrite_interrupted and done < len(complete):
                allowed.append(complete[done])
            final = rb.final_out
            if final not in allowed:
                kind = _kind(final, [a for a in allowed if a is not None] +
                             complete)
                v.violate(
                    'torn-after-disk-fault',
                    f'C06:disk-fault-leaves-{kind}-file',
                    f'after {err} at low-level operation {k} on the output '
                    f'file{" (disk stays full)" if sticky else ""} the output '
                    f'file is not an accepted input ({kind})',
                    point=pt,
                    left=(final or b'')[:200].decode(errors='replace'),
                    expected_one_of=[(a or b'')[:120].decode(errors='replace')
                                     for a in allowed])
            v.probes[f'disk_fault_outcome.{rb.outcome}'] += 1
        if case.get('restarts') and case.get('points') is None:
            self.restart_after_kill(case, spec, res, v)
        v.nontrivial = bool(ntkeys) or (rec.n_points_in_rewrite > 0)
        v.key = res.trace_digest
        v.extra['nt_pairs'] = len(ntkeys)
        v.ntkeys = ntkeys
        v.sample = {
            'opts': spec['opts'],
            'input': spec['input'][:600],
            'model_rules': spec['model']['rules'],
            'rewrites': len(windows),
            'observation_points_in_rewrites': len(inside),
            'interrupt_points_replayed': len(points),
            'example_points': points[:8],
            'complete_texts': [
                (c or b'').decode(errors='replace')[:100] for c in complete[:4]
            ],
        }
        return v
