"""C14 - exactly the enabled mutators are used."""
from .. import props
from .. import reftok
from .. import gen_input
from .. import sim
from .. import workload
from .c02 import mutator_registry

AUTO_GROUPS = ('arithmetic', 'bv', 'datatypes', 'fp', 'strings')


def option_model(opts, reg):
    """Reference model of option processing: in command-line order."""
    enabled = {o: True for o in reg['options']}
    group_set = {g: None for g in reg['groups']}
    for o in opts:
        if not o.startswith('--'):
            continue
        name = o[2:]
        val = True
        if name.startswith('no-'):
            name = name[3:]
            val = False
        if o == '--disable-all':
            for g in group_set:
                group_set[g] = False
            for k in enabled:
                enabled[k] = False
        elif name in reg['groups']:
            group_set[name] = val
            for k in reg['groups'][name]:
                enabled[k] = val
        elif name in enabled:
            enabled[name] = val
    return enabled, group_set


def hash_text(t):
    import hashlib
    return int.from_bytes(hashlib.blake2b(t.encode(), digest_size=8).digest(),
                          'big')


def declares(tokens):
    """Which theories does the input declare something of?  (sort of a
    declared constant, result sort of a declared / defined function, body of a
    defined sort, datatype declarations)"""
    res = set()
    if not reftok.balanced(tokens):
        return None
    for item in reftok.top_level(tokens):
        if len(item) < 3 or item[0] != '(':
            continue
        head = item[1]
        sub = _children(item)
        sort = None
        if head == 'declare-const' and len(sub) >= 3:
            sort = sub[2]
        elif head in ('declare-fun', 'define-fun', 'define-sort') and len(sub) >= 4:
            sort = sub[3]
        elif head in ('declare-datatype', 'declare-datatypes'):
            res.add('datatypes')
        if sort is None:
            continue
        s = set(sort)
        if s & {'Int', 'Real'}:
            res.add('arithmetic')
        js = ' '.join(sort)
        if '( _ BitVec' in js:
            res.add('bv')
        if 'String' in s or '( Seq' in js:
            res.add('strings')
        if s & {'Float16', 'Float32', 'Float64', 'Float128', 'RoundingMode'} \
                or '( _ FloatingPoint' in js:
            res.add('fp')
    return res


def _children(item):
    """Split the token list of one parenthesised item into child token lists."""
    inner = item[1:-1]
    out = []
    cur = []
    depth = 0
    for t in inner:
        cur.append(t)
        if t == '(':
            depth += 1
        elif t == ')':
            depth -= 1
        if depth == 0:
            out.append(tuple(cur))
            cur = []
    return out


class C14(props.Prop):
    id = 'C14'
    title = 'Exactly the enabled mutators are used'
    rule = (
        'case = one whole simulated run of the real CLI with a swarm-random '
        'ordered sequence of mutator / group / --disable-all options (single '
        'options, ordered pairs, longer sequences; every third case is '
        'systematic: each single option once, then the ordered pairs in a '
        'fixed order - the thorough tier reaches all of them) on an input with or '
        'without declarations of each theory, all strategies; the set of '
        'mutator classes whose filter/mutations/global_mutations were called '
        'during the run is compared with a reference model of option '
        'processing and theory detection; distinct = (option sequence, '
        'declared theories, strategy) digest; non-trivial = the option '
        'sequence toggles at least one mutator or group')
    budget = {'quick': 30, 'thorough': 600}

    def gen(self, rng, tier):
        reg = mutator_registry()
        # theories declared or not: drive feature selection
        feats = set(rng.sample(['int', 'real', 'bv', 'str', 'fp', 'dt', 'arr',
                                'let', 'quant', 'deffun', 'uf'],
                               rng.randint(1, 5)))
        text = gen_input.gen_script(rng, feats=feats,
                                    size=rng.choice([1, 2, 3]))
        if rng.random() < 0.3:
            # ill-formed (too short) declarations at random positions: they
            # declare nothing, and must not hide the declarations after them
            lines = text.rstrip('\n').split('\n')
            first = 0
            while first < len(lines) and lines[first].startswith('(set-'):
                first += 1
            for _ in range(rng.choice([1, 1, 2])):
                junk = rng.choice(['(declare-const junk)', '(declare-fun f)',
                                   '(define-fun g ())', '(define-sort S)',
                                   '(declare-const)', '(declare-fun h ())'])
                lines.insert(rng.randint(first, len(lines)), junk)
            text = '\n'.join(lines) + '\n'
        import random
        r2 = random.Random(hash_text(text))
        if r2.random() < 0.25:
            # a theory that occurs only nested inside another sort (array
            # element / index, parameter of a defined sort)
            inner = r2.choice(['(_ BitVec 4)', 'Int', 'Real', 'String',
                               '(_ FloatingPoint 5 11)', 'RoundingMode',
                               '(Seq Bool)'])
            decl = r2.choice([
                '(declare-const nst (Array Bool {s}))',
                '(declare-const nst (Array {s} Bool))',
                '(declare-fun nst () (Array Bool (Array Bool {s})))',
                '(define-sort NSort () (Array Bool {s}))',
            ]).format(s=inner)
            lines = text.rstrip('\n').split('\n')
            first = 0
            while first < len(lines) and lines[first].startswith('(set-'):
                first += 1
            lines.insert(r2.randint(first, len(lines)), decl)
            text = '\n'.join(lines) + '\n'
        spec = workload.base_spec(rng,
                                  jobs=(1, 1, 2),
                                  model_style=rng.choice(['contains', 'count',
                                                          'mixed']),
                                  out_modes=('', ),
                                  text=text)
        groups = sorted(reg['groups'])
        names = sorted(reg['options'])
        k = rng.random()
        opts = []

        def one():
            r = rng.random()
            if r < 0.12:
                return '--disable-all'
            if r < 0.45:
                g = rng.choice(groups)
                return rng.choice([f'--{g}', f'--no-{g}'])
            o = rng.choice(names)
            return rng.choice([f'--{o}', f'--no-{o}'])

        n = 0 if k < 0.05 else (1 if k < 0.3 else (2 if k < 0.6 else
                                                   rng.randint(3, 8)))
        opts = [one() for _ in range(n)]
        # every third case is systematic: all single options first, then all
        # ordered pairs in lexicographic order (the quick tier reaches a few
        # hundred pairs, the thorough tier all of them)
        idx = getattr(self, 'current_index', None)
        spec['systematic'] = None
        if idx is not None and idx % 3 == 0:
            singles = ['--disable-all'] + [f'--{x}{g}' for g in groups
                                           for x in ('', 'no-')] + \
                [f'--{x}{o}' for o in names for x in ('', 'no-')]
            j = idx // 3
            n1 = len(singles)
            if j < n1:
                opts = [singles[j]]
                spec['systematic'] = 'single'
            elif j - n1 < n1 * n1:
                a, b = divmod(j - n1, n1)
                # spread over the whole table instead of starting with
                # n1 pairs that all begin with --disable-all
                a = (a * 37 + b) % n1
                opts = [singles[a], singles[b]]
                spec['systematic'] = 'pair'
        spec['opts'] += opts
        spec['mut_opts'] = opts
        spec['sched']['line_gap'] = None
        return {'prop': 'C14', 'runs': [spec]}

    def run(self, case):
        spec = case['runs'][0]
        res = sim.execute(spec)
        v = props.Verdict()
        v.absorb(res)
        spec['choices'] = res.choices
        rec = res.rec
        reg = mutator_registry()
        if spec.get('systematic'):
            v.probes['systematic.' + spec['systematic']] += 1
        toks = reftok.tokenize(spec['input'])
        decl = declares(toks)
        enabled, group_set = option_model(spec['opts'], reg)
        strat = spec.get('strategy')
        import hashlib
        v.key = hashlib.blake2b(repr((spec.get('mut_opts'), sorted(decl or []),
                                      strat)).encode(),
                                digest_size=8).hexdigest()
        if not props.completed(res) or res.status != 0:
            v.aborted = res.outcome if res.outcome != 'returned' else f'status{res.status}'
        opt_of = {c: o for o, (g, c) in reg['options'].items()}
        grp_of = {c: g for o, (g, c) in reg['options'].items()}
        # 1. only enabled mutators are consulted
        for cname in sorted(rec.consulted):
            o = opt_of.get(cname)
            if o is None:
                continue
            if not enabled[o]:
                v.violate(
                    'disabled-mutator-used',
                    f'C14:disabled-mutator-used:{cname}',
                    f'mutator {cname} (--{o}) was consulted although the '
                    f'option sequence {spec.get("mut_opts")} disables it',
                    options=spec.get('mut_opts'))
                break
        if v.aborted is None and decl is not None and toks:
            # 2. every enabled mutator is scheduled
            for o, (g, cname) in sorted(reg['options'].items()):
                if not enabled[o]:
                    continue
                may_auto = (g in AUTO_GROUPS and group_set[g] is None
                            and g not in decl)
                if may_auto:
                    continue
                if cname == 'BinaryReduction' and strat == 'ddmin':
                    continue
                if rec.consulted.get(cname, 0) == 0:
                    v.violate(
                        'enabled-mutator-unused',
                        f'C14:enabled-mutator-unused:{cname}:{strat}',
                        f'mutator {cname} (--{o}, group {g}) is enabled '
                        f'(options {spec.get("mut_opts")}, input declares '
                        f'{sorted(decl)}) but was never consulted in a '
                        f'complete {strat} run',
                        options=spec.get('mut_opts'), declares=sorted(decl))
                    break
            # 2b. ... in the last hierarchical pass, and in ddmin (inner probe
            # on the pass lists; skipped if the probed names are gone)
            required = [cname for o, (g, cname) in sorted(reg['options'].items())
                        if enabled[o] and not (g in AUTO_GROUPS and
                                               group_set[g] is None and
                                               g not in decl)]
            hp = rec.passes.get('hierarchical')
            if hp and strat in ('hierarchical', 'hybrid'):
                missing = [c for c in required if c not in hp[-1]]
                if missing:
                    v.violate(
                        'not-in-last-pass',
                        f'C14:enabled-mutator-not-in-last-pass:{missing[0]}',
                        f'enabled mutators {missing[:5]} are not part of the '
                        f'last hierarchical pass',
                        options=spec.get('mut_opts'), last_pass=hp[-1][:60])
            dp = rec.passes.get('ddmin')
            if dp and strat in ('ddmin', 'hybrid'):
                union = set(c for p in dp for c in p)
                missing = [c for c in required
                           if c not in union and c != 'BinaryReduction']
                if missing:
                    v.violate(
                        'not-in-ddmin',
                        f'C14:enabled-mutator-not-in-ddmin:{missing[0]}',
                        f'enabled mutators {missing[:5]} are not scheduled '
                        f'by ddmin', options=spec.get('mut_opts'))
            # 3. auto-detection disables a group only where allowed
            ns = res.namespace or {}
            for g in reg['groups']:
                want_any = any(enabled[o] for o in reg['groups'][g])
                got_any = any(ns.get('mutator_' + o.replace('-', '_'), True)
                              for o in reg['groups'][g])
                if want_any and not got_any:
                    if group_set[g] is not None or g in decl or g not in AUTO_GROUPS:
                        v.violate(
                            'group-wrongly-disabled',
                            f'C14:group-wrongly-disabled:{g}',
                            f'group {g} was disabled automatically although '
                            f'{"the user set it explicitly" if group_set[g] is not None else "the input declares something of that theory"}',
                            options=spec.get('mut_opts'), declares=sorted(decl))
                        break
                    v.probes['auto_disabled_groups'] += 1
        v.probes['consulted_classes'] += len(rec.consulted)
        v.probes['option_seq_len.' + str(min(len(spec.get('mut_opts') or []), 3))] += 1
        v.nontrivial = bool(spec.get('mut_opts'))
        v.sample = {
            'opts': spec['opts'],
            'input': spec['input'][:300],
            'declares': sorted(decl) if decl is not None else None,
            'consulted': sorted(rec.consulted)[:60],
            'model_enabled': sorted(o for o, e in enabled.items() if e)[:60],
        }
        return v
