"""C13 - the working input is a tree: node identities are pairwise distinct."""
from .. import props
from .. import reftok
from .. import gen_input
from .. import sim
from .. import workload
from .c02 import mutator_registry

SHARING = ['eliminate-variables', 'let-substitution', 'inline-functions',
           'constants', 'replace-by-variable', 'str-contains-to-concat',
           'arith-constants', 'bv-simp-constants', 'simplify-symbol-names',
           'simplify-quoted-symbols', 'str-constants', 'substitute-children']


class C13(props.Prop):
    id = 'C13'
    title = 'The working input is a tree: node identities are pairwise distinct'
    rule = (
        'case = one whole simulated run steered towards simplifications that '
        'insert one replacement object at several positions (variable '
        'elimination, let substitution, inlining, global constant / symbol '
        'rewrites; erasing mutators often disabled; inputs with empty lists, '
        'repeated subterms and equalities to leaf-less terms); the oracle '
        'inspects the node identities of the input handed to every new round '
        '(TaskGenerator / Producer construction) and every call of '
        'reduplicate; distinct = trace digest; non-trivial = some '
        'reduplicate call of the run received an input with shared node '
        'identities (sharing really arose)')
    budget = {'quick': 35, 'thorough': 600}

    def gen(self, rng, tier):
        text = gen_input.gen_risky(rng, base_feats=rng.sample(
            ['int', 'bv', 'let', 'deffun', 'str', 'empty', 'quant'], 3) + ['empty'])
        spec = workload.base_spec(
            rng,
            jobs=(1, 2, 3, 4),
            model_style=rng.choice(['hash', 'mixed', 'contains']),
            out_modes=('', ),
            text=text,
            p_idc=0.7)
        for rule in spec['model']['rules']:
            _set_p(rule[0], rng.choice([0.3, 0.5, 0.7]))
        k = rng.random()
        if k < 0.5:
            pick = rng.sample(SHARING, rng.randint(2, 6))
            spec['opts'] += ['--disable-all'] + [f'--{o}' for o in pick]
        elif k < 0.8:
            spec['opts'] += ['--no-erase-node', '--no-binary-reduction']
        # the node-id counter is shared by all processes: in half of the cases
        # (nearly) every access to it is a pre-emption point
        import random
        r2 = random.Random(spec['seed'] * 11 + 5)
        if r2.random() < 0.5:
            spec['sched']['idc_every'] = r2.choice([2, 3, 5, 7])
        return {'prop': 'C13', 'runs': [spec]}

    def run(self, case):
        spec = case['runs'][0]
        res = sim.execute(spec)
        v = props.Verdict()
        v.absorb(res)
        spec['choices'] = res.choices
        v.key = res.trace_digest
        rec = res.rec
        if res.outcome in ('hang', 'stepcap', 'wallcap', 'deadlock') or str(
                res.outcome).startswith('harness'):
            v.aborted = res.outcome
        for r in rec.rounds:
            if r['dup'] is not None:
                leafless = '(' in r['dup'][1] and not any(
                    t not in '()' for t in r['dup'][1].split())
                v.violate(
                    'shared-identity',
                    f'C13:shared-identity:{r["kind"]}:' +
                    ('leafless-subtree' if leafless else 'subtree'),
                    f'the input handed to a new {r["kind"]} round contains '
                    f'node identity {r["dup"][0]} at two positions '
                    f'({r["dup"][1]!r})',
                    node=r['dup'][1])
                break
        shared_calls = 0
        for d in rec.redups:
            if d['shared_ids']:
                shared_calls += 1
            if d['tokens_same'] is False:
                v.violate('reduplicate-changes-tokens',
                          'C13:reduplicate-changes-tokens',
                          're-duplication changed the rendered token sequence')
                break
            if d['unique_kept'] is False:
                v.violate('reduplicate-renames-unique',
                          'C13:reduplicate-renames-unique',
                          f're-duplication gave a new identity to a node that '
                          f'was already unique: {d.get("lost_example")}')
                break
            if d['dup_after'] is not None:
                leafless = not any(t not in '()' for t in d['dup_after'][1].split())
                v.violate(
                    'reduplicate-leaves-duplicates',
                    'C13:reduplicate-leaves-duplicates:' +
                    ('leafless-subtree' if leafless else 'subtree'),
                    f'after re-duplication identity {d["dup_after"][0]} still '
                    f'occurs twice ({d["dup_after"][1]!r})')
                break
        v.probes['rounds'] += len(rec.rounds)
        v.probes['reduplicate_calls'] += len(rec.redups)
        v.probes['reduplicate_calls_with_sharing'] += shared_calls
        v.probes['shared_leafless_seen'] += sum(
            1 for d in rec.redups if d.get('shared_leafless'))
        v.nontrivial = shared_calls > 0
        if not rec.redups and len(rec.rounds) >= 3:
            # reduplicate probe not in place: rounds are still checked
            v.nontrivial = True
            v.probes['reduplicate_probe_missing'] += 1
        v.sample = {
            'opts': spec['opts'],
            'input': spec['input'][:500],
            'rounds_inspected': len(rec.rounds),
            'reduplicate_calls': len(rec.redups),
            'calls_with_sharing': shared_calls,
        }
        return v


def _set_p(pred, p):
    if pred.get('k') == 'hash':
        pred['p'] = p
    a = pred.get('a')
    for q in a if isinstance(a, list) else ([a] if isinstance(a, dict) else []):
        _set_p(q, p)
