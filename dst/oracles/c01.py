"""C01 - the output file reproduces the golden behaviour."""
from .. import props
from .. import refrule
from .. import reftok
from .. import gen_cmd
from .. import sim
from .. import workload


def add_compare(rng, spec, p_cc=0.3):
    toks = reftok.tokenize(spec['input'])
    m = gen_cmd.CmdModel(spec['model'])
    o = m.on_tokens(toks)
    spec['opts'] += gen_cmd.gen_compare_opts(rng, (o.exit, o.out, o.err))
    if rng.random() < p_cc:
        cc = gen_cmd.gen_model_multi(rng, toks) if rng.random(
        ) < 0.5 else gen_cmd.gen_model(rng, toks)
        spec['model_cc'] = cc
        oc = gen_cmd.CmdModel(cc).on_tokens(toks)
        spec['opts'] += gen_cmd.gen_compare_opts(rng,
                                                 (oc.exit, oc.out, oc.err),
                                                 cc=True)
        spec['cc_args'] = rng.choice([[], ['--cc-arg']])
        # command and cross-check command may be two builds of one solver
        # (same base name, different directories)
        import random as _r
        spec['same_basename'] = _r.Random(spec.get('seed', 0) * 17 +
                                          3).random() < 0.3


class C01(props.Prop):
    id = 'C01'
    title = 'Output file reproduces the golden behaviour'
    rule = (
        'case = one whole simulated run (input x command model with a '
        'colliding outcome alphabet x strategy x -j x {default, --pretty-print,'
        ' --wrap-lines} x comparison options x optional cross-check x '
        'completion order); distinct = trace digest; non-trivial = the run '
        'completed with status 0 and adopted at least one candidate (an '
        'output file exists)')

    def gen(self, rng, tier):
        if rng.random() < 0.15:
            # lexical stress: the command depends on tokens that are hard to
            # render (they survive the minimisation), all output modes
            from .. import gen_input
            text, tricky = gen_input.gen_lexical(rng)
            spec = workload.base_spec(
                rng, text=text, jobs=(1, 2),
                out_modes=('--wrap-lines', '--wrap-lines', '--pretty-print', ''))
            keep = rng.sample(tricky, rng.randint(1, min(2, len(tricky))))
            spec['model']['rules'] = [[{'k': 'contains', 'toks': keep}, 'bug']]
            add_compare(rng, spec, p_cc=0.1)
            return {'prop': 'C01', 'runs': [spec]}
        spec = workload.base_spec(rng)
        toks = reftok.tokenize(spec['input'])
        if rng.random() < 0.6:
            spec['model'] = gen_cmd.gen_model_multi(rng, toks)
        add_compare(rng, spec)
        return {'prop': 'C01', 'runs': [spec]}

    def run(self, case):
        spec = case['runs'][0]
        res = sim.execute(spec)
        v = props.Verdict()
        v.absorb(res)
        spec['choices'] = res.choices
        v.key = res.trace_digest
        rec = res.rec
        if not props.completed(res) or res.status != 0:
            v.aborted = res.outcome if res.outcome != 'returned' else f'status{res.status}'
            return v
        if not res.input_same or rec.input_write_opens:
            v.violate('input-modified', 'C01:input-modified',
                      'the input file was modified or opened for writing')
        cfg = refrule.compare_cfg(spec['opts'])
        ot = props.out_tokens(res)
        v.probes['writes'] += len(rec.writes)
        om = [o for o in spec['opts'] if o in ('--pretty-print', '--wrap-lines')]
        mode = om[0] if om else 'default'
        v.probes['mode.' + mode] += 1
        if ot is None:
            if rec.writes:
                v.violate('output-missing', 'C01:output-missing',
                          'candidates were adopted but no output file exists')
            return v
        v.nontrivial = True
        g, gcc = props.golden_runs(res)
        if g is None:
            if rec.writes and not cfg.get('unchecked'):
                v.violate(
                    'output-not-a-tested-candidate',
                    f'C01:output-not-a-tested-candidate:{mode}',
                    'an output file was written although the command under '
                    'test was never run (no golden run of it was observed; '
                    f'{len(rec.inv)} invocations of other executables)',
                    output=res.final_out.decode(errors='replace')[:400])
            return v
        # (a) re-run the command(s) on the output file
        m = gen_cmd.CmdModel(spec['model'])
        o = m.on_tokens(ot)
        run = (o.exit, o.out, o.err)
        if o.behaviour[0] != 'normal':
            run = refrule.TIMEOUT
        run_cc = None
        if gcc is not None:
            oc = gen_cmd.CmdModel(spec['model_cc']).on_tokens(ot)
            run_cc = (oc.exit, oc.out, oc.err)
        ok = refrule.accepts(cfg, g, run, gcc, run_cc)
        out_text = res.final_out.decode(errors='replace')
        if not ok:
            v.violate(
                'output-does-not-reproduce',
                f'C01:output-does-not-reproduce:{mode}',
                f'running the command on the output file ({mode} rendering) '
                f'does not match the golden run',
                golden=g, on_output=run, golden_cc=gcc, on_output_cc=run_cc,
                output=out_text[:400])
        # (b) the output's token sequence is that of an accepted candidate
        acc = props.accepted_file_digests(res, cfg)
        d = rec.dig(ot)
        if d not in acc:
            # diagnose: which adopted tree was it?
            last = [w for w in rec.writes if w['completed']]
            tree = rec.text(last[-1]['dig'])[:300] if last else None
            v.violate(
                'output-not-a-tested-candidate',
                f'C01:output-not-a-tested-candidate:{mode}',
                f'the token sequence of the output file ({mode} rendering) '
                f'is not that of any candidate file on which the command was '
                f'run and accepted',
                output=out_text[:400], adopted_tree_tokens=tree)
        return_sample = {
            'opts': spec['opts'],
            'input': spec['input'][:500],
            'model_rules': spec['model']['rules'][:3],
            'cross_check': spec.get('model_cc') is not None,
            'output': out_text[:300],
            'invocations': len(rec.inv),
        }
        v.sample = return_sample
        return v
