"""C02 - the hierarchical/hybrid result is a fixed point of every enabled
mutator."""
import io
import os
import pickle

from .. import props
from .. import probes
from .. import refrule
from .. import reftok
from .. import gen_cmd
from .. import sim
from .. import workload
from ..seams import CTX


def enabled_mutator_classes(namespace, exclude=()):
    res = []
    for cname, (group, opt, cls) in probes.MUTATOR_CLASSES.items():
        if cname in exclude:
            continue
        attr = 'mutator_' + opt.replace('-', '_')
        if namespace.get(attr, True):
            res.append((cname, cls))
    return res


def enumerate_fixpoint(res, spec, exclude=(), limit=None, reparse=False):
    """Every proposal of every enabled mutator on the final in-memory input,
    judged by the command model.  Returns (n_proposals, first accepted
    proposal or None).  Must be called right after sim.execute (module state of
    ddsmt still is that of the finished run)."""
    m = probes.M
    exprs = res.rec.finals.get('hierarchical')
    if exprs is None:
        return 0, None, 'no-final'
    if reparse:
        # what a second ddSMT run on the output file would start from
        if res.final_out is None:
            return 0, None, 'no-output'
        exprs = list(m.nodeio.parse_smtlib(res.final_out.decode()))
    cfg = refrule.compare_cfg(spec['opts'])
    g, gcc = props.golden_runs(res)
    if g is None:
        return 0, None, 'no-golden'
    model = gen_cmd.CmdModel(spec['model'])
    model_cc = gen_cmd.CmdModel(
        spec['model_cc']) if spec.get('model_cc') else None
    m.smtlib.collect_information(exprs)
    muts = [(n, c()) for n, c in enabled_mutator_classes(res.namespace,
                                                         exclude)]
    render = getattr(m.nodeio, 'write_smtlib_for_checking')
    path = os.path.join(CTX.sandbox, 'oracle-candidate' + spec.get('ext', '.smt2'))
    pickled = pickle.dumps(exprs)
    n = 0
    count = 0
    for node in m.nodes.bfs(exprs):
        count += 1
        for name, mut in muts:
            try:
                if hasattr(mut, 'filter') and not mut.filter(node):
                    continue
                gens = []
                if hasattr(mut, 'mutations'):
                    gens.append(('', mut.mutations(node)))
                if hasattr(mut, 'global_mutations'):
                    gens.append(('(global) ', mut.global_mutations(node, exprs)))
                for tag, gen in gens:
                    for simp in gen:
                        try:
                            simp2 = pickle.loads(pickle.dumps(simp))
                            cand = m.mutator_utils.apply_simp.__wrapped__(
                                pickle.loads(pickled), simp2) if hasattr(
                                    m.mutator_utils.apply_simp, '__wrapped__'
                                ) else m.mutator_utils.apply_simp(
                                    pickle.loads(pickled), simp2)
                            render(path, cand)
                            with open(path) as f:
                                text = f.read()
                        except Exception:
                            continue
                        n += 1
                        toks = reftok.tokenize(text)
                        o = model.on_tokens(toks)
                        run = (o.exit, o.out, o.err) if o.behaviour[0] == 'normal' else refrule.TIMEOUT
                        run_cc = None
                        if gcc is not None and model_cc is not None:
                            oc = model_cc.on_tokens(toks)
                            run_cc = (oc.exit, oc.out, oc.err)
                        if refrule.accepts(cfg, g, run, gcc, run_cc):
                            return n, {
                                'mutator': tag + name,
                                'node_bfs_index': count,
                                'node': ' '.join(reftok.tree_tokens(node))[:80],
                                'candidate': text[:300],
                            }, 'accepted'
                        if limit and n >= limit:
                            return n, None, 'limit'
            except Exception:
                # as Producer.__mutate_node: the failure costs the remaining
                # proposals of this mutator at this node
                continue
    return n, None, 'fixpoint'


class C02(props.Prop):
    id = 'C02'
    title = 'Hierarchical/hybrid result is a fixed point of every enabled mutator'
    rule = (
        'case = one whole simulated hierarchical/hybrid run (random input, '
        'non-monotone command model, -j 1..8, random mutator subset, '
        'scheduler personality) followed by re-enumeration of every proposal '
        'of every enabled mutator on the final in-memory input, each judged '
        'by the command model; distinct = trace digest; non-trivial = the run '
        'completed, adopted >= 1 simplification and the oracle judged >= 1 '
        'proposal on the final input')
    budget = {'quick': 40, 'thorough': 720}

    def gen(self, rng, tier):
        spec = workload.base_spec(
            rng,
            strategies=('hierarchical', 'hierarchical', 'hybrid'),
            jobs=(1, 2, 3, 4, 8),
            small=rng.random() < 0.7,
            model_style=rng.choice(['hash', 'mixed', 'mixed', 'contains',
                                    'count', 'subseq']),
            out_modes=('', ))
        reg = mutator_registry()
        spec['opts'] += workload.gen_mutator_opts(rng, reg, p=0.4)
        return {'prop': 'C02', 'runs': [spec]}

    def run(self, case):
        spec = case['runs'][0]
        res = sim.execute(spec)
        v = props.Verdict()
        v.absorb(res)
        spec['choices'] = res.choices
        v.key = res.trace_digest
        rec = res.rec
        if not props.completed(res) or res.status != 0:
            v.aborted = res.outcome if res.outcome != 'returned' else f'status{res.status}'
            return v
        if 'hierarchical' not in rec.finals:
            v.extra['attribution'] = 'no-final-list'
            return v
        n, acc, why = enumerate_fixpoint(res, spec)
        v.probes['proposals_judged'] += n
        v.probes['oracle.' + why] += 1
        where = 'in-memory final input'
        if acc is None and rec.writes:
            # the same on a fresh parse of the output file (what running
            # ddSMT again on its own output would enumerate)
            n2, acc, why2 = enumerate_fixpoint(res, spec, reparse=True)
            v.probes['proposals_judged_reparsed'] += n2
            v.probes['oracle_reparsed.' + why2] += 1
            where = 'output file (re-parsed)'
        v.probes['writes'] += len(rec.writes)
        starts = res.stderr.count('Starting over')
        v.probes['starting_over'] += starts
        if acc is not None:
            v.violate(
                'not-a-fixpoint',
                'C02:not-a-fixpoint' if where.startswith('in-memory') else
                'C02:not-a-fixpoint:output-file',
                f'after normal termination the proposal of "{acc["mutator"]}" '
                f'at BFS node {acc["node_bfs_index"]} ({acc["node"]}) of the '
                f'{where} is accepted by the command',
                **acc,
                final=rec.text(rec.dig(reftok.tree_tokens(rec.finals['hierarchical'])))[:300])
        v.nontrivial = n >= 1 and len(rec.writes) >= 1
        v.sample = {
            'opts': spec['opts'],
            'input': spec['input'][:400],
            'model_rules': spec['model']['rules'],
            'final': ' '.join(reftok.tree_tokens(rec.finals['hierarchical']))[:200],
            'proposals_judged_on_final': n,
            'adopted_steps': len(rec.writes),
        }
        return v


_REG = None


def mutator_registry():
    """Names of mutator options and groups, from the theory modules."""
    global _REG
    if _REG is None:
        m = probes.import_ddsmt()
        groups = {}
        options = {}
        for g, (mod, table) in m.mutators.get_all_mutators().items():
            groups[g] = sorted(table.values())
            for cname, opt in table.items():
                options[opt] = (g, cname)
        _REG = {'groups': groups, 'options': options}
    return _REG
