"""C05 - accepted inputs form a chain; stale parallel results never adopted."""
from .. import props
from .. import reftok
from .. import sim
from .. import workload


class C05(props.Prop):
    id = 'C05'
    title = 'Accepted inputs form a chain; stale parallel results are never adopted'
    rule = (
        'case = one whole simulated run of ddsmt.__main__.main() with -j>=2 '
        '(random input, command model, strategy, look-ahead, scheduler '
        'personality, line-level pre-emption); distinct = distinct (schedule '
        'trace digest); non-trivial = at least one adoption happened while '
        '>=2 checks were in flight in the same pool (max concurrently busy '
        'workers >= 2 and >= 1 output write)')

    def gen(self, rng, tier):
        spec = workload.base_spec(
            rng,
            jobs=(2, 2, 3, 4, 8),
            model_style=rng.choice(
                ['hash', 'hash', 'mixed', 'count', 'contains', 'subseq']),
            out_modes=('', ),
        )
        # ddmin enters its parallel path only if len(subsets) > 2*jobs: favour
        # inputs with many asserts for ddmin
        if spec['strategy'] != 'hierarchical' and rng.random() < 0.6:
            text = workload.gen_input.gen_script(
                rng, size=rng.choice([8, 12, 18]))
            spec2 = workload.base_spec(
                rng,
                strategies=(spec['strategy'], ),
                jobs=(2, 2, 3),
                model_style=rng.choice(['hash', 'count', 'mixed']),
                out_modes=('', ),
                text=text)
            spec = spec2
        return {'prop': 'C05', 'runs': [spec]}

    def run(self, case):
        spec = case['runs'][0]
        res = sim.execute(spec)
        v = props.Verdict()
        v.absorb(res)
        rec = res.rec
        spec['choices'] = res.choices
        if not props.completed(res) or res.status != 0:
            v.aborted = res.outcome if res.outcome != 'returned' else f'status{res.status}'
            # the chain must hold for the prefix even if the run was cut short
        self.oracle(res, v)
        npar = rec.max_busy
        v.probes['writes'] += len(rec.writes)
        v.probes['accepted_checks'] += sum(
            1 for c in rec.checks if c['verdict'])
        v.probes['discarded_successes'] += max(
            0,
            sum(1 for c in rec.checks if c['verdict']) - len(rec.writes))
        v.probes['max_busy_ge2'] += 1 if npar >= 2 else 0
        v.probes['ddmin_parallel_pools'] += rec.counters.get('pools', 0) if spec['strategy'] == 'ddmin' else 0
        # success that completed while the abort flag was already set
        flag_on = []
        cur = None
        for seq, fid, val in rec.flag_log:
            if val and cur is None:
                cur = seq
            elif not val and cur is not None:
                flag_on.append((cur, seq))
                cur = None
        if cur is not None:
            flag_on.append((cur, 10**18))
        late = 0
        for c in rec.checks:
            if c['verdict'] and c['seq1'] is not None:
                if any(a <= c['seq1'] <= b for a, b in flag_on):
                    late += 1
        v.probes['success_completed_while_abort_set'] += late
        v.nontrivial = npar >= 2 and len(rec.writes) >= 1
        v.key = res.trace_digest
        v.sample = {
            'opts': spec['opts'],
            'input': spec['input'],
            'model_rules': spec['model']['rules'],
            'sched': spec['sched'],
            'chain': [rec.text(w['dig'])[:120] for w in rec.writes][:6],
            'n_writes': len(rec.writes),
            'n_checks': len(rec.checks),
            'max_busy': npar,
        }
        return v

    def oracle(self, res, v):
        rec = res.rec
        if not rec.writes:
            return
        if not rec.strategy_inputs:
            v.extra['attribution'] = 'outer'
            return
        strat = res.spec.get('strategy')
        prev = rec.strategy_inputs[0][1]
        derived = set()
        for a in rec.applies:
            derived.add((a[2], a[3]))
        have_apply = bool(rec.applies)
        accepted = [(c['dig'], c['seq1']) for c in rec.checks
                    if c['verdict'] and c['seq1'] is not None]
        # command side: what the command read during an accepted check must be
        # the candidate of that check (compared without white space, so that
        # leaves that are not single tokens do not matter)
        for c in rec.checks:
            if not c['verdict'] or c.get('sq') is None:
                continue
            for i in c['inv']:
                d = rec.inv[i]
                if d.get('sq') is not None and d['sq'] != c['sq'] and any(
                        w['dig'] == c['dig'] for w in rec.writes):
                    v.violate(
                        'accepted-on-other-content',
                        'C05:accepted-on-other-content',
                        'an adopted candidate was accepted although the '
                        'command was run on a different content (its '
                        'candidate file was overwritten before the command '
                        'read it)',
                        candidate=rec.text(c['dig'])[:200],
                        command_read=rec.text(d['dig'])[:200])
                    break
            if v.violations:
                break
        for k, w in enumerate(rec.writes, 1):
            if w['actor'] != 'main':
                v.violate('write-by-non-main', 'C05:write-by-non-main',
                          f'output write #{k} issued by actor {w["actor"]}')
            okacc = any(d == w['dig'] and s <= w['seq0'] for d, s in accepted)
            if not rec.checks and rec.inv:
                # the check probe is not in place (renamed function): this
                # rule cannot be evaluated
                v.probes['rule_skipped.write-not-accepted'] += 1
                okacc = True
            if not okacc:
                v.violate(
                    'write-not-accepted', 'C05:write-not-accepted',
                    f'output write #{k} has no accepted check of the same '
                    f'input that completed before the write began',
                    write_index=k,
                    written=rec.text(w['dig'])[:300])
            if have_apply and (prev, w['dig']) not in derived:
                # derived from some other (older) base?
                bases = [b for (b, c) in derived if c == w['dig']]
                v.violate(
                    'stale-adoption', f'C05:stale-adoption:{strat}',
                    f'output write #{k} is not one simplification step away '
                    f'from its predecessor (candidate was computed against a '
                    f'superseded input)',
                    write_index=k,
                    predecessor=rec.text(prev)[:300],
                    written=rec.text(w['dig'])[:300],
                    bases_of_written=[rec.text(b)[:200] for b in bases[:3]])
            if w['completed']:
                prev = w['dig']
        last = [w for w in rec.writes if w['completed']]
        if last and props.completed(res):
            ot = props.out_tokens(res)
            if ot is None or rec.dig(ot) != last[-1].get('file_dig'):
                v.violate('final-file-not-last', 'C05:final-file-not-last',
                          'the file left at exit is not the last element of '
                          'the chain')
        if rec.counters.get('violation.output_touched_by_non_main'):
            v.violate('write-by-non-main', 'C05:write-by-non-main',
                      'output file touched by a worker/feeder actor')
