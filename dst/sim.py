"""One simulated run of the unmodified ddSMT under the seeded scheduler.

``execute(spec)`` is a pure function of ``spec`` (and the code under test):
spec = {
  'seed': int,               # seeds the choice source unless 'choices' given
  'choices': [int]|None,     # replay
  'input': str, 'ext': '.smt2',
  'opts': [str],             # ddsmt options (before infile outfile cmd)
  'cmd_args': [str],         # extra arguments of the command
  'model': spec, 'model_cc': spec|None,
  'sched': {personality, p_switch, p_time, line_gap, lookahead, vpid_base,
            step_cap},
  'faults': {...},           # see Faults
  'launcher': 'main'|'bin',
  'usage': None|'no_infile'|'no_cmd'|'cmd_not_exec'|'cmd_missing',
  'prlimit': bool, 'observe_output': bool, 'jump_budget': int|None,
}
"""
import atexit
import contextlib
import ctypes
import errno
import gc
import hashlib
import io
import logging
import os
import shutil
import sys
import tempfile
import threading
import time as _rtime
import traceback
import weakref

from . import sched as _sched
from . import seams
from . import probes
from . import record
from . import gen_cmd
from . import reftok
from .seams import CTX

_INSTALLED = False
_WATCHDOG = None
_SANDBOX = None
HANG_SECONDS = float(os.environ.get('DST_HANG_SECONDS', '20'))


class Faults:
    """Fault plan of a run; counts what actually fired."""

    def __init__(self, plan, rec):
        self.plan = plan or {}
        self.rec = rec
        self.mut_calls = {}
        self.mut_seen = []
        self.mut_target = None
        self.io_ops = 0
        self.out_ops = 0

    def maybe_mutator_fault(self, cname, meth, site=None):
        mf = self.plan.get('mutator')
        if not mf:
            return
        if mf.get('site') and mf['site'] != site:
            # fault placed at a particular call site of the mutator: calls
            # from elsewhere neither fail nor count
            return
        target = mf['cls']
        if target.startswith('#'):
            # '#k': the k-th distinct mutator class consulted in this run (a
            # class that is certainly in use; decided by the run itself)
            if cname not in self.mut_seen:
                self.mut_seen.append(cname)
            k = int(target[1:])
            if len(self.mut_seen) <= k:
                return
            target = self.mut_seen[k]
        if target != cname:
            return
        if mf.get('meth') and mf['meth'] != meth:
            return
        self.mut_target = cname
        n = self.mut_calls.get(cname, 0) + 1
        self.mut_calls[cname] = n
        cnt = mf.get('count')
        if n >= mf.get('from', 1) and (cnt is None
                                       or n < mf.get('from', 1) + cnt):
            self.rec.count('fault.mutator_exception')
            exc = {
                'IndexError': IndexError,
                'AttributeError': AttributeError,
                'ValueError': ValueError,
                'TypeError': TypeError,
                'KeyError': KeyError,
                'AssertionError': AssertionError,
                'RecursionError': RecursionError,
            }[mf.get('exc', 'IndexError')]
            raise exc(f'injected failure in {cname}.{meth}')

    def maybe_io_error(self, op, path):
        iof = self.plan.get('cand_io')
        if not iof or iof['op'] != op:
            return
        self.io_ops += 1
        if self.io_ops == iof['at'] or (iof.get('sticky')
                                        and self.io_ops >= iof['at']):
            self.rec.count('fault.cand_io_error')
            code = getattr(errno, iof.get('errno', 'ENOSPC'))
            raise OSError(code, os.strerror(code), str(path))


    def out_io(self, op, f, data=None):
        """Disk fault while the output file (or its staging sibling) is being
        written: the n-th low-level write is torn (a prefix reaches the disk,
        then ENOSPC / EIO), or the n-th close fails after the tail of the data
        was lost.  Returns normally if no fault is due."""
        self.out_ops += 1
        self.rec.counters['out_file_lowlevel_ops'] += 1
        of = self.plan.get('out_io')
        if not of:
            return
        if self.out_ops == of['at'] or (of.get('sticky')
                                        and self.out_ops >= of['at']):
            code = getattr(errno, of.get('errno', 'ENOSPC'))
            self.rec.count('fault.out_io_error.' + op)
            try:
                if op == 'write' and data:
                    f.write(data[:len(data) // 2])
                    f.flush()
                elif op == 'close':
                    f.flush()
                    sz = f.tell()
                    f.truncate(sz - sz // 3)
                    f.close()
            except (OSError, ValueError):
                pass
            raise OSError(code, os.strerror(code), getattr(f, 'name', ''))


_RESOURCE_SLOTS = []


def _ddsmt_modules():
    return [sys.modules[n] for n in sorted(sys.modules)
            if (n == 'ddsmt' or n.startswith('ddsmt.'))
            and not n.startswith('ddsmt.tests') and sys.modules[n] is not None]


def _install_once():
    global _INSTALLED, _SANDBOX
    if _INSTALLED:
        return
    m = probes.import_ddsmt()
    probes.install_probes()
    probes.install_monitoring()
    import multiprocessing
    import subprocess as _subprocess
    import resource as _resource
    fm = seams.FakeMultiprocessing(multiprocessing)
    # every module of the package: whichever of them holds the standard
    # modules (a refactoring may move pool creation or the command runner)
    # ... also when single names were imported from them
    by_identity = [
        (multiprocessing.Pool, seams.SimPool),
        (multiprocessing.Manager, seams.SimManager),
        (_subprocess.Popen, seams.SimProc),
        (_subprocess.run, seams.FakeSubprocess.run),
        (_rtime.time, seams.FakeTime.time),
        (_rtime.monotonic, seams.FakeTime.monotonic),
        (_rtime.perf_counter, seams.FakeTime.perf_counter),
        (_rtime.sleep, seams.FakeTime.sleep),
        (os.getpid, seams._OsForTmpfiles.getpid),
    ]
    import concurrent as _concurrent
    import concurrent.futures as _cfutures
    by_identity += [
        (threading.Thread, seams.SimThread),
        (threading.Lock, seams._ThreadingForTmpfiles.Lock),
        (threading.RLock, seams._ThreadingForTmpfiles.RLock),
        (threading.Event, seams.SimThreadEvent),
        (threading.get_ident, seams._ThreadingForTmpfiles.get_ident),
        (_cfutures.ThreadPoolExecutor, seams.SimThreadPoolExecutor),
        (_cfutures.as_completed, seams.sim_as_completed),
        (_cfutures.wait, seams.sim_wait),
    ]
    fthreading = seams._ThreadingForTmpfiles()
    for mod in _ddsmt_modules():
        for name, val in list(vars(mod).items()):
            if val is multiprocessing:
                setattr(mod, name, fm)
            elif val is threading:
                setattr(mod, name, fthreading)
            elif val is _concurrent:
                setattr(mod, name, seams.FakeConcurrent)
            elif val is _cfutures:
                setattr(mod, name, seams.FakeConcurrent.futures)
            elif val is _rtime:
                setattr(mod, name, seams.FakeTime)
            elif val is _subprocess:
                setattr(mod, name, seams.FakeSubprocess)
            elif val is _resource:
                _RESOURCE_SLOTS.append((mod, name))
            else:
                for real, fake in by_identity:
                    if val is real:
                        setattr(mod, name, fake)
                        break
    if not _RESOURCE_SLOTS:
        _RESOURCE_SLOTS.append((m.checker, 'resource'))
    m.tmpfiles.os = seams._OsForTmpfiles()
    if getattr(m.tmpfiles, 'threading', None) is threading:
        m.tmpfiles.threading = fthreading
    m.nodeio.open = seams.sim_open
    if hasattr(m.nodeio, 'os'):
        m.nodeio.os = seams._OsForNodeio()
    # file access that goes through shutil (copy fallback of shutil.move,
    # shutil.copy) is seen by the same seam
    shutil.open = seams.sim_open
    base = '/dev/shm' if os.path.isdir('/dev/shm') else tempfile.gettempdir()
    _SANDBOX = os.path.join(base, f'dst-{os.getpid()}')
    shutil.rmtree(_SANDBOX, ignore_errors=True)
    os.makedirs(_SANDBOX)
    atexit.register(shutil.rmtree, _SANDBOX, True)
    _start_watchdog()
    _INSTALLED = True


def _start_watchdog():
    global _WATCHDOG

    def watch():
        while True:
            _rtime.sleep(0.5)
            S = CTX.S
            if S is None or S.finished or S.stopped:
                continue
            if _rtime.monotonic() - S.last_progress > HANG_SECONDS:
                cur = S.cur
                if cur is None or cur.thread is None:
                    continue
                S.last_progress = _rtime.monotonic() + 3600
                S.hang_kind = 'watchdog'
                S.hang_actor = cur.name
                frame = sys._current_frames().get(cur.thread.ident)
                S.hang_stack = ''.join(
                    traceback.format_stack(frame)[-8:]) if frame else ''
                S.hang_frames = [(os.path.basename(f.filename), f.name)
                                 for f in traceback.extract_stack(frame)
                                 ] if frame else []
                ctypes.pythonapi.PyThreadState_SetAsyncExc(
                    ctypes.c_ulong(cur.thread.ident),
                    ctypes.py_object(_sched.HangDetected))

    _WATCHDOG = threading.Thread(target=watch, daemon=True, name='watchdog')
    _WATCHDOG.start()


_JUMP_ON = False


def _enable_jump_budget(budget):
    """Deterministic hang detection: count backward/forward jumps and calls of
    the running actor between two yield points."""
    global _JUMP_ON
    mon = sys.monitoring
    TOOL = 4
    if not _JUMP_ON:
        mon.use_tool_id(TOOL, 'dst-jumps')

        def on_jump(code, src, dst):
            S = CTX.S
            if S is None or S.stopped:
                return
            S.jumps += 1
            if S.jumps > S.jump_budget:
                me = S.by_thread.get(threading.get_ident())
                if me is None or me is not S.cur:
                    return
                # the budget is a (generous, quadratic) function of the size
                # of the largest input / candidate seen so far: a step on an
                # input that has grown huge is slow, not hanging
                n = CTX.rec.max_tokens if CTX.rec is not None else 0
                if S.jumps <= S.jump_budget + 30 * n * n:
                    return
                S.jumps = -10**12
                S.hang_kind = 'jumps'
                S.hang_actor = me.name
                S.hang_stack = ''.join(traceback.format_stack()[-8:-1])
                S.hang_frames = [(os.path.basename(f.filename), f.name)
                                 for f in traceback.extract_stack()[:-1]]
                raise _sched.HangDetected('jump budget')

        def on_start(code, off):
            # calls count too: runaway recursion has no loop in it
            return on_jump(code, off, off)

        mon.register_callback(TOOL, mon.events.JUMP, on_jump)
        mon.register_callback(TOOL, mon.events.PY_START, on_start)
        _JUMP_ON = True
    mon.set_events(TOOL, (mon.events.JUMP | mon.events.PY_START) if budget else 0)


class Result:
    """Everything the oracles need; plain data plus the recorder."""
    pass


def _is_shared_counter(v):
    if isinstance(v, seams.SimCounter):
        return True
    try:
        from multiprocessing.sharedctypes import Synchronized
    except ImportError:  # pragma: no cover
        return False
    return isinstance(v, Synchronized)


def _install_id_counter(m, points, every):
    """Replace the shared node-id counter (a multiprocessing.Value, wherever
    ddsmt.nodes keeps it: class attribute of Node, module global, attribute
    of a helper object) by a fresh simulated one."""
    n = 0
    for holder in (m.nodes.Node, m.nodes):
        for name, val in list(vars(holder).items()):
            if _is_shared_counter(val):
                setattr(holder, name, seams.SimCounter(points, every))
                n += 1
            elif (hasattr(val, '__dict__') and not isinstance(val, type)
                  and type(val).__module__ == m.nodes.__name__):
                for n2, v2 in list(vars(val).items()):
                    if _is_shared_counter(v2):
                        setattr(val, n2, seams.SimCounter(points, every))
                        n += 1
    if n == 0 and 'id-counter' not in probes.MISSING:
        probes.MISSING.append('id-counter')
    return n


def _write_exec(path, text=seams.MAIN_TEXT, mode=0o755):
    with open(path, 'w') as f:
        f.write(text)
    os.chmod(path, mode)


def execute(spec):
    _install_once()
    m = probes.M
    sb = os.path.join(_SANDBOX, 'run')
    shutil.rmtree(sb, ignore_errors=True)
    os.makedirs(sb)
    ext = spec.get('ext', '.smt2')
    inpath = os.path.join(sb, 'in' + ext)
    outpath = os.path.join(sb, 'out' + ext)
    cmdpath = os.path.join(sb, 'cmd')
    ccpath = os.path.join(sb, 'cmd_cc')
    if spec.get('same_basename') and spec.get('model_cc') is not None:
        # two builds of one solver: same base name, different directories
        os.makedirs(os.path.join(sb, 'new'))
        os.makedirs(os.path.join(sb, 'ref'))
        cmdpath = os.path.join(sb, 'new', 'solver')
        ccpath = os.path.join(sb, 'ref', 'solver')
    usage = spec.get('usage')
    if usage not in ('no_infile', 'infile_is_dir'):
        with open(inpath, 'w', newline='') as f:
            f.write(spec['input'])
        os.utime(inpath, (1.5e9, 1.5e9))
    if usage == 'infile_is_dir':
        os.makedirs(inpath)
    if usage == 'cmd_not_exec':
        _write_exec(cmdpath, mode=0o644)
    elif usage != 'cmd_missing':
        _write_exec(cmdpath)
    if spec.get('model_cc') is not None:
        _write_exec(ccpath, text=seams.CC_TEXT)
    for fn, data in (spec.get('preexisting') or {}).items():
        # files left behind by an earlier (killed) run
        with open(os.path.join(sb, os.path.basename(fn)), 'wb') as f:
            f.write(data if isinstance(data, bytes) else data.encode('latin-1'))
    in_bytes = spec['input'].encode() if usage not in (
        'no_infile', 'infile_is_dir') else None

    # -- reset process-global state -----------------------------------------------
    seams.restore_pristine()
    _install_id_counter(m, (spec.get('sched') or {}).get('idc_points') or (),
                        (spec.get('sched') or {}).get('idc_every') or 0)
    seams._EVENTS.clear()
    seams._PREEXEC_TARGET.clear()
    root = logging.getLogger()
    for h in list(root.handlers):
        root.removeHandler(h)
    root.setLevel(logging.WARNING)
    errbuf = io.StringIO()
    outbuf = io.StringIO()
    handler = logging.StreamHandler(errbuf)
    handler.setFormatter(
        logging.Formatter('[ddSMT %(levelname)s] %(message)s'))
    root.addHandler(handler)
    old_tempdir = tempfile.tempdir
    tempfile.tempdir = sb

    argv = ['ddsmt'] + list(spec.get('opts', []))
    if spec.get('model_cc') is not None:
        argv += ['-c', ' '.join([ccpath] + list(spec.get('cc_args', [])))]
    argv += [inpath, outpath]
    if usage != 'no_cmd':
        argv += [cmdpath] + list(spec.get('cmd_args', []))

    # -- scheduler and context ------------------------------------------------------
    sc = dict(spec.get('sched') or {})
    if sc.get('line_gap') is not None:
        sc['line_gap'] = tuple(sc['line_gap'])
    choices = _sched.Choices(seed=spec.get('seed', 0),
                             replay=spec.get('choices'))
    S = _sched.Sched(choices, sc, switch_hook=seams.switch_hook)
    S.hang_actor = None
    S.hang_stack = None
    S.hang_frames = None
    S.hang_kind = None
    S.jump_budget = spec.get('jump_budget') or 0
    rec = record.Recorder(spec)
    mainproc = _sched.Proc(S.new_vpid(), 'main')
    S.add_main(mainproc)
    S.on_main_yield = rec.on_main_yield
    model = gen_cmd.CmdModel(spec['model'])
    model_cc = gen_cmd.CmdModel(
        spec['model_cc']) if spec.get('model_cc') is not None else None

    def cmd(which, content, missing):
        if which == 'cc' and model_cc is not None:
            return model_cc(content, missing)
        return model(content, missing)

    CTX.S = S
    CTX.rec = rec
    CTX.spec = spec
    CTX.cmd = cmd
    CTX.sandbox = sb
    CTX.outpath = outpath
    CTX.inpath = inpath
    CTX.lookahead = sc.get('lookahead', 4) or 10**9
    CTX.faults = Faults(spec.get('faults'), rec)
    for mod, name in _RESOURCE_SLOTS:
        setattr(mod, name, seams.FakeResourceWithPrlimit if spec.get(
            'prlimit', True) else seams.FakeResourceNoPrlimit)
    fl = spec.get('faults') or {}
    if fl.get('interrupt') is not None:
        S.interrupt_at = tuple(fl['interrupt'])
        S.interrupt_exc = {
            'KeyboardInterrupt': KeyboardInterrupt,
            'MemoryError': MemoryError
        }[fl.get('interrupt_exc', 'KeyboardInterrupt')]
    if fl.get('actor_exc') is not None:
        af = fl['actor_exc']
        S.actor_fault = (af['actor'], af['nth'], {
            'MemoryError': MemoryError,
            'OSError': OSError,
            'RuntimeError': RuntimeError,
        }[af.get('exc', 'MemoryError')])
    if spec.get('jump_budget'):
        _enable_jump_budget(spec['jump_budget'])

    res = Result()
    res.spec = spec
    res.rec = rec
    res.exc = None
    res.exc_tb = None
    res.status = None
    res.outcome = 'returned'
    res.argv = argv
    fin_before = set(weakref.finalize._registry.keys())
    atexit_cbs = []
    real_register = atexit.register

    def fake_register(func, *a, **k):
        if getattr(func, '__func__', None) is weakref.finalize._exitfunc.__func__:
            # weakref's own exit hook: must stay a real, once-only hook
            return real_register(func, *a, **k)
        atexit_cbs.append((func, a, k))
        return func

    real_rename, real_replace = os.rename, os.replace
    if spec.get('xdev'):
        # the temporary directory lives on another file system than the
        # output file: renames between the two fail with EXDEV
        def _xdev(fn):
            def f(src, dst, *a, **k):
                try:
                    s_, d_ = os.path.abspath(os.fspath(src)), os.path.abspath(
                        os.fspath(dst))
                except TypeError:
                    return fn(src, dst, *a, **k)
                s_in = '/ddsmt-' in s_
                d_in = '/ddsmt-' in d_
                if s_in != d_in:
                    rec.count('fault.exdev')
                    raise OSError(errno.EXDEV, os.strerror(errno.EXDEV), s_,
                                  None, d_)
                return fn(src, dst, *a, **k)
            return f
        os.rename = _xdev(real_rename)
        os.replace = _xdev(real_replace)
    saved_argv = sys.argv
    sys.argv = argv
    saved_cwd = os.getcwd()
    os.chdir(sb)  # ddSMT writes .simp-N.diff / profiles to the cwd
    import multiprocessing
    saved_ssm = multiprocessing.set_start_method
    multiprocessing.set_start_method = lambda *a, **k: None
    atexit.register = fake_register
    gc_was = gc.isenabled()
    gc.disable()
    S.last_progress = _rtime.monotonic()
    try:
        with contextlib.redirect_stdout(outbuf), contextlib.redirect_stderr(
                errbuf):
            try:
                if spec.get('launcher', 'main') == 'bin':
                    import runpy
                    runpy.run_path(os.path.join(m.repo, 'bin', 'ddsmt'),
                                   run_name='__main__')
                    res.status = 0
                else:
                    # console script: sys.exit(main())
                    rc = m.ddmain.main()
                    res.status = 0 if rc is None else rc
            except SystemExit as e:
                c = e.code
                res.status = 0 if c is None else (c if isinstance(c, int) else
                                                  1)
                res.outcome = 'sysexit'
            except _sched.StopRun:
                res.outcome = 'stopped'
            except _sched.Deadlock:
                res.outcome = 'deadlock'
            except _sched.StepCap:
                res.outcome = 'wallcap' if S.wall_capped else 'stepcap'
            except _sched.HangDetected:
                res.outcome = 'hang'
            except _sched.ActorKilled:
                res.outcome = 'harness:actor_killed_in_main'
            except seams.HarnessError as e:
                res.outcome = 'harness:' + str(e)
            except BaseException as e:  # escaped main(): internal error
                res.outcome = 'exception'
                res.exc = e
                res.exc_tb = traceback.format_exc()
                res.status = 1
    finally:
        rec.main_nyield = S.main.nyield
        if rec.fallback_active:
            # (write probe missing) the run ended inside a rewrite
            rec.fallback_active = False
            rec.rewrite_in_progress = False
            rec.rewrite_interrupted = True
        try:
            S.shutdown()
        except Exception as e:
            res.outcome = 'harness:shutdown ' + repr(e)
        if spec.get('jump_budget'):
            _enable_jump_budget(0)
        os.rename, os.replace = real_rename, real_replace
        os.chdir(saved_cwd)
        sys.argv = saved_argv
        multiprocessing.set_start_method = saved_ssm
        atexit.register = real_register
    res.hang_actor = S.hang_actor
    res.hang_stack = S.hang_stack
    res.hang_frames = S.hang_frames
    res.hang_kind = S.hang_kind

    # -- what is on disk now (before interpreter-exit emulation) -------------------
    res.final_out = rec.read_out()
    res.tmp_left_before_exit = sorted(
        d for d in os.listdir(sb) if d.startswith('ddsmt-'))
    # emulate interpreter exit: atexit callbacks and finalizers with atexit=True
    res.exit_emulation_errors = []
    for func, a, k in reversed(atexit_cbs):
        try:
            func(*a, **k)
        except Exception as e:
            res.exit_emulation_errors.append(repr(e))
    new_fins = [
        f for f in list(weakref.finalize._registry.keys())
        if f not in fin_before
    ]
    res.finalizers = len(new_fins)
    for f in reversed(new_fins):
        try:
            if f.alive and f.atexit:
                with contextlib.redirect_stderr(io.StringIO()):
                    f()
        except Exception as e:
            res.exit_emulation_errors.append(repr(e))
    res.tmp_left_after_exit = sorted(
        d for d in os.listdir(sb) if d.startswith('ddsmt-'))
    # input file untouched?
    try:
        if in_bytes is not None:
            with open(inpath, 'rb') as f:
                res.input_same = f.read() == in_bytes
            res.input_mtime_same = os.stat(inpath).st_mtime == 1.5e9
        else:
            res.input_same = True
            res.input_mtime_same = True
    except OSError:
        res.input_same = False
        res.input_mtime_same = False
    res.stdout = outbuf.getvalue()
    res.stderr = errbuf.getvalue()
    res.sim_time = S.clock
    res.steps = S.steps
    res.max_step_events = max(S.max_jumps, S.jumps)
    res.switches = S.switches
    res.choices = choices.picks
    res.nthreads = threading.active_count()
    h = hashlib.blake2b(digest_size=8)
    h.update(repr(S.log).encode())
    h.update(repr((res.status, res.outcome)).encode())
    h.update(res.final_out if res.final_out is not None else b'<none>')
    res.trace_digest = h.hexdigest()
    res.log = S.log
    res.finals = rec.finals
    res.mut_target = getattr(CTX.faults, 'mut_target', None)
    # options namespace as parsed (for C14) - read before reset
    try:
        res.namespace = dict(vars(getattr(m.options, '__PARSED_ARGS')))
    except Exception:
        res.namespace = None
    root.removeHandler(handler)
    tempfile.tempdir = old_tempdir
    CTX.S = None
    CTX.rec = None
    CTX.faults = None
    if gc_was:
        gc.enable()
    return res


def cleanup_between_runs():
    gc.collect()
