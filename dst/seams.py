"""Simulated peers of ddSMT: process pool, manager event, command processes,
clock, resource limits, pid/thread ids, file access of nodeio.

All of them are installed by rebinding module attributes of the ddsmt modules
(no change in /repo is needed).  ``CTX`` is the context of the run in progress.
"""
import builtins
import collections
import copy
import os
import pickle
import subprocess as _real_subprocess
import sys
import time as _rtime
import types

from . import sched as _sched


class Ctx:
    """Everything the stubs need to know about the run in progress."""
    S = None  # scheduler
    rec = None  # recorder
    spec = None  # run specification
    cmd = None  # command model callable: (which, tokens) -> Outcome
    sandbox = None
    outpath = None
    inpath = None
    lookahead = 4
    faults = None
    prlimit_present = True


CTX = Ctx()


class HarnessError(Exception):
    """The harness met something it does not model."""


# ---------------------------------------------------------------------------
# per-process module state (fork model) and reset between runs
# ---------------------------------------------------------------------------

_SLOTS = None
_PRISTINE = None
_SKIP_NAMES = {
    '__name__', '__doc__', '__package__', '__loader__', '__spec__',
    '__file__', '__cached__', '__builtins__', '__path__'
}


def _is_state(v):
    if isinstance(v, (types.ModuleType, types.FunctionType, type,
                      types.BuiltinFunctionType, types.MethodType)):
        return False
    if callable(v) and not isinstance(v, (dict, list, set)):
        return False
    return True


def _copy1(v):
    if isinstance(v, dict):
        return dict(v)
    if isinstance(v, list):
        return list(v)
    if isinstance(v, set):
        return set(v)
    import argparse
    if isinstance(v, argparse.Namespace):
        return copy.copy(v)
    return v


def init_state_slots():
    """Called once after ddsmt has been imported."""
    global _SLOTS, _PRISTINE
    slots = []
    for mname in sorted(sys.modules):
        if mname != 'ddsmt' and not mname.startswith('ddsmt.'):
            continue
        if mname.startswith('ddsmt.tests'):
            continue
        mod = sys.modules[mname]
        if mod is None:
            continue
        for name, v in sorted(vars(mod).items()):
            if name in _SKIP_NAMES:
                continue
            if _is_state(v):
                slots.append((mod, name))
    _SLOTS = slots
    _PRISTINE = capture_state()


def capture_state():
    return [_copy1(getattr(m, n)) for m, n in _SLOTS]


def install_state(ns):
    for (m, n), v in zip(_SLOTS, ns):
        setattr(m, n, v)


def restore_pristine():
    install_state([_copy1(v) for v in _PRISTINE])
    _TIDX[0] = 0
    SimFuture._SEQ[0] = 0


def switch_hook(old_proc, new_proc):
    """Context switch between simulated processes: swap module state."""
    old_proc.ns = [getattr(m, n) for m, n in _SLOTS]
    if new_proc.ns is not None:
        install_state(new_proc.ns)


# ---------------------------------------------------------------------------
# multiprocessing.Manager().Event()
# ---------------------------------------------------------------------------

_EVENTS = {}


class SimEvent:

    def __init__(self):
        self.flag = False
        self.id = len(_EVENTS)
        _EVENTS[self.id] = self
        self.sets = 0

    def is_set(self):
        CTX.S.yield_('ev.is_set', self.id)
        return self.flag

    def set(self):
        CTX.S.yield_('ev.set', self.id)
        self.flag = True
        self.sets += 1
        CTX.rec.on_flag(self.id, True)

    def clear(self):
        CTX.S.yield_('ev.clear', self.id)
        self.flag = False
        CTX.rec.on_flag(self.id, False)

    def wait(self, timeout=None):
        S = CTX.S
        dl = [False]
        if timeout is not None:
            S.at(S.clock + timeout, lambda: dl.__setitem__(0, True))
        S.block(lambda: self.flag or dl[0], 'ev.wait', self.id)
        return self.flag

    def __reduce__(self):
        return (_ev_lookup, (self.id, ))


def _ev_lookup(i):
    return _EVENTS[i]


# the two executables handed to ddSMT differ in content: which of them a
# process runs is decided by what it executes, not by what the file is called
MAIN_TEXT = '#!/bin/sh\n# the command under test\nexit 0\n'
CC_TEXT = '#!/bin/sh\n# the cross-check command\nexit 0\n'


class SimCounter:
    """The node-id counter: a ``multiprocessing.Value('i')`` in shared memory,
    used by every process (main parses and re-duplicates, workers substitute).
    The value is shared by all simulated processes; the accesses whose index
    is in ``points`` (drawn per run) are pre-emption points, and the lock is a
    simulated one: an actor that finds it held blocks until it is released."""

    def __init__(self, points=(), every=0):
        self._v = 0
        self.ops = 0
        self.points = set(points)
        self.every = every
        self.owner = None
        self.depth = 0
        self._lock = _SimCounterLock(self)

    def _point(self, what):
        self.ops += 1
        if self.ops in self.points or (self.every
                                       and self.ops % self.every == 0):
            S = CTX.S
            if S is not None and S.me() is not None:
                CTX.rec.count('fault.preempt_at_id_counter')
                S.yield_('idc.' + what, self.ops)

    @property
    def value(self):
        self._point('get')
        return self._v

    @value.setter
    def value(self, x):
        self._point('set')
        if x <= self._v and CTX.rec is not None and CTX.S is not None:
            # probe: the counter went backwards (identities will be handed
            # out twice); whether two of them meet in one input is decided by
            # the oracle on the trees
            CTX.rec.count('id_counter_rewound')
        self._v = x

    def get_lock(self):
        return self._lock


class _SimCounterLock:

    def __init__(self, c):
        self.c = c

    def acquire(self, *a, **k):
        c = self.c
        S = CTX.S
        me = S.me() if S is not None else None
        if me is not None and c.owner is not None and c.owner is not me:
            CTX.rec.count('id_counter_lock_contended')
            S.block(lambda: c.owner is None, 'idc.lock')
        c.owner = me
        c.depth += 1
        return True

    def release(self):
        c = self.c
        c.depth -= 1
        if c.depth <= 0:
            c.depth = 0
            c.owner = None

    def __enter__(self):
        self.acquire()
        return self

    def __exit__(self, *a):
        self.release()
        return False


class SimManager:

    def __init__(self, *a, **kw):
        CTX.S.yield_('manager.new')

    def Event(self):
        return SimEvent()

    def shutdown(self):
        pass

    def __enter__(self):
        return self

    def __exit__(self, *a):
        return False


# ---------------------------------------------------------------------------
# multiprocessing.Pool
# ---------------------------------------------------------------------------


def _reraise(e):
    raise e


class _Job:

    def __init__(self, pool, ordered):
        self.pool = pool
        self.ordered = ordered
        self.results = collections.deque()
        self.held = {}
        self.next_ordered = 0
        self.length = None
        self.index = 0

    def deliver(self, i, res):
        if not self.ordered:
            self.results.append(res)
            return
        self.held[i] = res
        while self.next_ordered in self.held:
            self.results.append(self.held.pop(self.next_ordered))
            self.next_ordered += 1

    def __iter__(self):
        return self

    def _ready(self):
        return self.results or (self.length is not None
                                and self.index >= self.length)

    def __next__(self):
        CTX.S.block(self._ready, 'job.next')
        if self.results:
            self.index += 1
            ok, val = self.results.popleft()
            if ok:
                tid = getattr(val, 'task_id', None)
                if tid is not None:
                    CTX.rec.last_task_main = tid
                return val
            raise val
        raise StopIteration

    next = __next__


class _AsyncResult:

    def __init__(self, job):
        self.job = job

    def get(self, timeout=None):
        return next(self.job)


class SimPool:
    """Model of multiprocessing.Pool as ddSMT uses it (see DESIGN 2.4)."""

    def __init__(self,
                 processes=None,
                 initializer=None,
                 initargs=(),
                 maxtasksperchild=None,
                 context=None):
        S = CTX.S
        self.n = processes or os.cpu_count() or 1
        self.inq = collections.deque()
        self.closed = False
        self.terminated = False
        S.yield_('pool.new', self.n)
        CTX.rec.count('pools')
        self.workers = []
        # fork: every worker gets a private copy of the creator's module state
        for i in range(self.n):
            vpid = S.new_vpid()
            proc = _sched.Proc(vpid, f'w{vpid}', ns=capture_state())
            init = (initializer, initargs)
            self.workers.append(
                S.spawn(f'w{vpid}',
                        lambda init=init: self._worker(init),
                        proc=proc))
        self.busy = 0

    def _worker(self, init):
        S = CTX.S
        if init[0] is not None:
            init[0](*init[1])
        while True:
            S.block(lambda: self.inq or self.closed, 'w.get')
            if not self.inq:
                return
            job, i, blob = self.inq.popleft()
            self.busy += 1
            CTX.rec.on_task_start(self.busy)
            me = S.me()
            try:
                func, arg = pickle.loads(blob)
                # which task this process works on (attribution of the
                # candidates it builds; independent of the worker function's
                # name)
                if me is not None:
                    CTX.rec.cur_task[me.name] = getattr(arg, 'id', None)
                res = (True, func(arg))
            except Exception as e:
                res = (False, e)
            finally:
                if me is not None:
                    CTX.rec.cur_task.pop(me.name, None)
            try:
                rb = pickle.dumps(res)
            except Exception as e:
                rb = pickle.dumps((False, RuntimeError(
                    f'unpicklable result: {e!r}')))
            self.busy -= 1
            S.yield_('w.put', i)
            job.deliver(i, pickle.loads(rb))

    def _submit(self, func, iterable, ordered):
        if self.terminated or self.closed:
            raise ValueError('Pool not running')
        S = CTX.S
        job = _Job(self, ordered)

        def feeder():
            i = 0
            try:
                it = iter(iterable)
                while True:
                    S.block(lambda: len(self.inq) < CTX.lookahead,
                            'feed.wait')
                    try:
                        x = next(it)
                    except StopIteration:
                        break
                    except Exception as e:
                        # as multiprocessing.pool._guarded_task_generation
                        self.inq.append(
                            (job, i, pickle.dumps((_reraise, e))))
                        i += 1
                        break
                    blob = pickle.dumps((func, x))
                    CTX.rec.on_task_put(len(self.inq) + 1)
                    self.inq.append((job, i, blob))
                    i += 1
                    S.yield_('feed.put', i)
            finally:
                job.length = i

        S.yield_('pool.submit')
        S.spawn('feeder', feeder)
        return job

    def imap_unordered(self, func, iterable, chunksize=1):
        return self._submit(func, iterable, False)

    def imap(self, func, iterable, chunksize=1):
        return self._submit(func, iterable, True)

    def map(self, func, iterable, chunksize=None):
        return list(self._submit(func, iterable, True))

    def map_async(self, func, iterable, chunksize=None):
        job = self._submit(func, iterable, True)

        class R:

            def get(self_inner, timeout=None):
                return list(job)

        return R()

    def apply_async(self, func, args=(), kwds=None):
        return _AsyncResult(
            self._submit(lambda a: func(*a, **(kwds or {})), [args], True))

    def apply(self, func, args=(), kwds=None):
        return self.apply_async(func, args, kwds).get()

    def close(self):
        self.closed = True

    def join(self):
        S = CTX.S
        S.block(lambda: all(w.done or w.killed for w in self.workers),
                'pool.join')

    def terminate(self):
        S = CTX.S
        S.yield_('pool.terminate')
        self.closed = True
        self.terminated = True
        for w in self.workers:
            S.kill(w)
        # threads started inside a worker process die with it
        procs = {id(w.proc) for w in self.workers}
        for a in list(S.actors):
            if a.tidx and id(a.proc) in procs and not a.done and not a.killed:
                S.kill(a)
        # feeders of this pool die with it
        for a in list(S.actors):
            if a.name == 'feeder' and not a.done and not a.killed:
                S.kill(a)

    def __enter__(self):
        return self

    def __exit__(self, *a):
        self.terminate()
        return False


class FakeMultiprocessing:
    """Stand-in for the ``multiprocessing`` module inside the strategies."""

    def __init__(self, real):
        self._real = real

    Pool = SimPool
    Manager = SimManager

    def __getattr__(self, name):
        if name in ('Process', 'Queue', 'Pipe', 'SimpleQueue',
                    'JoinableQueue'):
            raise HarnessError(f'unmodelled multiprocessing API: {name}')
        return getattr(self._real, name)


# ---------------------------------------------------------------------------
# subprocess / resource / time
# ---------------------------------------------------------------------------

Outcome = collections.namedtuple('Outcome',
                                 ['cls', 'exit', 'out', 'err', 'behaviour'])
# behaviour: ('normal', base_duration) | ('hang',) | ('spin', nthreads)
#            | ('alloc',) | ('signal', n, base_duration)

LAT_FACTORS = (1.0, 0.5, 2.0, 3.0)


class SimProc:

    def __init__(self,
                 args,
                 stdout=None,
                 stderr=None,
                 preexec_fn=None,
                 **kw):
        S = CTX.S
        rec = CTX.rec
        S.yield_('popen')
        self.args = list(args)
        self._cap_out = stdout == _real_subprocess.PIPE
        self._cap_err = stderr == _real_subprocess.PIPE
        # text mode as in subprocess: str instead of bytes, universal newlines
        self._text = bool(kw.get('text') or kw.get('universal_newlines')
                          or kw.get('encoding') or kw.get('errors'))
        self.pid = S.new_vpid()
        self.returncode = None
        self.t0 = S.clock
        self.exited = False
        self.exit_code = None
        self.killed = False
        self.reaped = False
        self.limits = {}
        self._armed_cpu = False
        self._armed_as = False
        self.content = None
        self.outcome = None
        self.actor = S.me().name
        self.inv = rec.on_popen(self)
        if preexec_fn is not None:
            # runs in the child between fork and exec
            _PREEXEC_TARGET.append(self)
            try:
                preexec_fn()
            finally:
                _PREEXEC_TARGET.pop()
        # the command is a function of what it reads, at the time it reads
        self.lat = LAT_FACTORS[S.ch.choose(len(LAT_FACTORS))]
        self.read_frac = (0.0, 0.5)[S.ch.choose(2, (0.8, 0.2))]
        self._schedule_read()

    def _schedule_read(self):
        S = CTX.S
        # nominal duration is known only after reading; use the unit 0.01
        t_read = self.t0 + 0.01 * self.lat * self.read_frac
        if self.read_frac == 0.0:
            self._read()
        else:
            S.at(t_read, self._read)

    def _read(self):
        if self.killed or self.content is not None:
            return
        S = CTX.S
        path = self.args[-1]
        try:
            with builtins.open(path, 'rb') as f:
                self.content = f.read().decode(errors='replace')
            missing = False
        except OSError:
            self.content = ''
            missing = True
        which = CTX.rec.which_cmd(self)
        self.outcome = CTX.cmd(which, self.content, missing)
        CTX.rec.on_read(self, missing)
        b = self.outcome.behaviour
        kind = b[0]
        now = S.clock
        if kind == 'normal':
            S.at(max(now, self.t0 + b[1] * self.lat), self._exit_normal)
        elif kind == 'signal':
            S.at(max(now, self.t0 + b[2] * self.lat),
                 lambda: self._exit(-b[1], '', ''))
        elif kind == 'hang':
            CTX.rec.count('fault.hang')
            if len(b) > 1 and b[1] == 'orphan':
                # a child of the command holds the write ends of the pipes
                self.pipes_held = self._cap_out or self._cap_err
                CTX.rec.count('fault.hang_with_orphan_holding_pipes')
        elif kind == 'spin':
            CTX.rec.count('fault.spin')
        elif kind == 'alloc':
            CTX.rec.count('fault.alloc')
        else:
            raise HarnessError(f'unknown behaviour {b!r}')
        self._arm_limits()

    def _arm_limits(self):
        """Kernel-enforced limits; called after the read and whenever a limit
        is set (prlimit arrives after the process has started)."""
        if self.outcome is None or self.exited or self.killed:
            return
        S = CTX.S
        b = self.outcome.behaviour
        if b[0] == 'spin' and 'cpu' in self.limits and not self._armed_cpu:
            self._armed_cpu = True
            # soft == hard: the kernel sends SIGKILL at the hard limit
            hard = self.limits['cpu'][1]
            S.at(max(S.clock, self.t0 + hard / max(1, b[1])),
                 lambda: self._exit(-9, '', ''))
        if b[0] == 'alloc' and 'as' in self.limits and not self._armed_as:
            self._armed_as = True
            S.at(max(S.clock, self.t0 + 0.02 * self.lat), self._exit_normal)

    def _exit_normal(self):
        o = self.outcome
        self._exit(o.exit, o.out, o.err)

    def _exit(self, code, out, err):
        if self.killed or self.exited:
            return
        self.exited = True
        self.exit_code = code
        self._out, self._err = out, err
        if code is not None and code < 0:
            CTX.rec.count('fault.signal_death')

    def communicate(self, input=None, timeout=None):
        S = CTX.S
        self.inv['timeout_arg'] = timeout
        dl = [False]
        h = None
        if timeout is not None:
            h = S.at(S.clock + timeout, lambda: dl.__setitem__(0, True))
        try:
            # end-of-file on the pipes: when the process has gone - unless an
            # orphaned child still holds them
            S.block(lambda: self.exited or (self.killed and not getattr(
                self, 'pipes_held', False)) or dl[0], 'communicate')
        finally:
            if h is not None:
                S.cancel(h)
        if self.exited or (self.killed and not getattr(self, 'pipes_held',
                                                        False)):
            self._reap()
            CTX.rec.on_done(self, False)
            # streams that are not pipes are not captured (None), as in
            # subprocess.Popen.communicate
            if self.killed and not self.exited:
                e = '' if self._text else b''
                return (e if self._cap_out else None,
                        e if self._cap_err else None)
            if self._text:
                for x in (self._out, self._err):
                    if any('\udc80' <= ch <= '\udcff' for ch in x):
                        raise UnicodeDecodeError('utf-8', b'\xff', 0, 1,
                                                 'invalid start byte')

                def tr(x):
                    return x.replace('\r\n', '\n').replace('\r', '\n')
                return (tr(self._out) if self._cap_out else None,
                        tr(self._err) if self._cap_err else None)
            # lone surrogates in a model's stream stand for bytes that are
            # not valid UTF-8 (what a solver printing Latin-1 text or binary
            # data produces)
            return (self._out.encode('utf-8', 'surrogateescape')
                    if self._cap_out else None,
                    self._err.encode('utf-8', 'surrogateescape')
                    if self._cap_err else None)
        CTX.rec.on_done(self, True)
        raise _real_subprocess.TimeoutExpired(self.args, timeout)

    def _reap(self):
        if not self.reaped:
            self.reaped = True
            self.returncode = self.exit_code if self.exited else -9

    def wait(self, timeout=None):
        S = CTX.S
        dl = [False]
        h = None
        if timeout is not None:
            h = S.at(S.clock + timeout, lambda: dl.__setitem__(0, True))
        try:
            S.block(lambda: self.exited or self.killed or dl[0], 'wait')
        finally:
            if h is not None:
                S.cancel(h)
        if self.exited or self.killed:
            self._reap()
            return self.returncode
        raise _real_subprocess.TimeoutExpired(self.args, timeout)

    def poll(self):
        CTX.S.yield_('poll')
        if self.exited or self.killed:
            self._reap()
        return self.returncode

    def kill(self):
        CTX.S.yield_('kill')
        if not self.exited:
            self.killed = True
        CTX.rec.on_kill(self)

    terminate = kill

    def send_signal(self, sig):
        self.kill()

    def __enter__(self):
        return self

    def __exit__(self, *a):
        if not (self.exited or self.killed):
            self.wait()
        return False

    stdout = None
    stderr = None
    stdin = None


_PREEXEC_TARGET = []
_PROCS_BY_PID = {}


class FakeSubprocess:
    PIPE = _real_subprocess.PIPE
    STDOUT = _real_subprocess.STDOUT
    DEVNULL = _real_subprocess.DEVNULL
    TimeoutExpired = _real_subprocess.TimeoutExpired
    CalledProcessError = _real_subprocess.CalledProcessError
    SubprocessError = _real_subprocess.SubprocessError
    CompletedProcess = _real_subprocess.CompletedProcess
    Popen = SimProc

    @staticmethod
    def run(args, timeout=None, capture_output=False, **kw):
        kw.pop('check', None)
        kw.pop('text', None)
        p = SimProc(args, **kw)
        try:
            out, err = p.communicate(timeout=timeout)
        except _real_subprocess.TimeoutExpired:
            p.kill()
            p.wait()
            raise
        return _real_subprocess.CompletedProcess(args, p.returncode, out, err)


class _FakeResourceBase:
    import resource as _r
    RLIMIT_AS = _r.RLIMIT_AS
    RLIMIT_CPU = _r.RLIMIT_CPU
    RLIMIT_DATA = _r.RLIMIT_DATA
    RLIMIT_STACK = _r.RLIMIT_STACK
    RLIM_INFINITY = _r.RLIM_INFINITY
    error = _r.error

    @staticmethod
    def _apply(proc, res, lim):
        import resource as _r
        if res == _r.RLIMIT_CPU:
            proc.limits['cpu'] = tuple(lim)
        elif res == _r.RLIMIT_AS:
            proc.limits['as'] = tuple(lim)
        else:
            proc.limits[res] = tuple(lim)
        CTX.rec.on_limit(proc, res, tuple(lim))
        proc._arm_limits()

    @staticmethod
    def setrlimit(res, lim):
        if not _PREEXEC_TARGET:
            # the calling ddSMT process limits itself (children started later
            # inherit the limit): recorded, judged by the oracle of C10
            import resource as _r
            name = {_r.RLIMIT_CPU: 'cpu', _r.RLIMIT_AS: 'as'}.get(res, str(res))
            CTX.rec.count('self_limit.' + name)
            return
        _FakeResourceBase._apply(_PREEXEC_TARGET[-1], res, lim)

    @staticmethod
    def getrlimit(res):
        import resource as _r
        return (_r.RLIM_INFINITY, _r.RLIM_INFINITY)


class FakeResourceWithPrlimit(_FakeResourceBase):

    @staticmethod
    def prlimit(pid, res, lim=None):
        CTX.S.yield_('prlimit')
        proc = CTX.rec.proc_by_pid.get(pid)
        if proc is None:
            raise ProcessLookupError(pid)
        if lim is not None:
            _FakeResourceBase._apply(proc, res, lim)
        import resource as _r
        return (_r.RLIM_INFINITY, _r.RLIM_INFINITY)


class FakeResourceNoPrlimit(_FakeResourceBase):
    pass


class FakeTime:
    """Simulated clock; only command latencies and deadlines advance it."""

    @staticmethod
    def time():
        return 1.6e9 + CTX.S.clock

    @staticmethod
    def monotonic():
        return CTX.S.clock

    perf_counter = monotonic

    @staticmethod
    def process_time():
        return 0.0

    @staticmethod
    def sleep(d):
        S = CTX.S
        dl = [False]
        S.at(S.clock + max(0.0, d), lambda: dl.__setitem__(0, True))
        S.block(lambda: dl[0], 'sleep')

    @staticmethod
    def time_ns():
        return int((1.6e9 + CTX.S.clock) * 1e9)

    monotonic_ns = time_ns
    strftime = staticmethod(_rtime.strftime)
    localtime = staticmethod(_rtime.localtime)
    gmtime = staticmethod(_rtime.gmtime)


class _OsForTmpfiles:
    """``os`` as seen by ddsmt.tmpfiles: virtual pid, everything else real."""

    def __getattr__(self, name):
        return getattr(os, name)

    @staticmethod
    def getpid():
        me = CTX.S.me()
        return me.proc.vpid if me is not None else 1


# ---------------------------------------------------------------------------
# threads started by the program under test (threading / concurrent.futures)
# ---------------------------------------------------------------------------
# The unchanged ddSMT starts no thread of its own (the pool's task-handler
# thread is modelled by SimPool's feeder).  A change that does - "run the
# command and the cross-check command at the same time" - must not escape the
# scheduler: such threads become actors of the same simulated process.

_TIDX = [0]


def _spawn_thread(fn, label):
    S = CTX.S
    _TIDX[0] += 1
    me = S.me()
    a = S.spawn(f'{me.name if me else "?"}.{label}{_TIDX[0]}', fn)
    a.tidx = _TIDX[0]
    return a


class SimLock:
    """threading.Lock / RLock whose waiting is a blocking point of the
    scheduler (a real lock held across a yield point would stall the baton)."""

    def __init__(self, reentrant=False):
        self._owner = None
        self._depth = 0
        self._re = reentrant

    def acquire(self, blocking=True, timeout=-1):
        S = CTX.S
        me = S.me() if S is not None else None
        if self._re and self._owner is me and self._depth:
            self._depth += 1
            return True
        if S is not None and me is not None:
            S.yield_('lock.acquire')
            if self._depth and not blocking:
                return False
            if self._depth:
                S.block(lambda: not self._depth, 'lock.wait')
        self._owner = me
        self._depth = 1
        return True

    def release(self):
        self._depth -= 1
        if self._depth <= 0:
            self._depth = 0
            self._owner = None

    def locked(self):
        return bool(self._depth)

    __enter__ = acquire

    def __exit__(self, *a):
        self.release()
        return False


class SimThreadEvent:

    def __init__(self):
        self._flag = False

    def is_set(self):
        return self._flag

    def set(self):
        if CTX.S is not None and CTX.S.me() is not None:
            CTX.S.yield_('tevent.set')
        self._flag = True

    def clear(self):
        self._flag = False

    def wait(self, timeout=None):
        S = CTX.S
        if self._flag or S is None or S.me() is None:
            return self._flag
        if timeout is None:
            S.block(lambda: self._flag, 'tevent.wait')
            return True
        fired = []
        h = S.at(S.clock + timeout, lambda: fired.append(1))
        S.block(lambda: self._flag or fired, 'tevent.wait', timeout)
        S.cancel(h)
        return self._flag


class SimThread:
    """threading.Thread: the target runs as an actor of the same process."""

    def __init__(self, group=None, target=None, name=None, args=(),
                 kwargs=None, daemon=None):
        self._target = target
        self._args = args
        self._kwargs = kwargs or {}
        self.name = name or 'Thread'
        self.daemon = bool(daemon)
        self._actor = None
        self._finished = False
        self.ident = None

    def run(self):
        if self._target is not None:
            self._target(*self._args, **self._kwargs)

    def _body(self):
        try:
            self.run()
        except Exception:  # as threading.excepthook
            import traceback as _tb
            print(f'Exception in thread {self.name}:', file=sys.stderr)
            _tb.print_exc(file=sys.stderr)
        finally:
            self._finished = True

    def start(self):
        S = CTX.S
        S.yield_('thread.start')
        CTX.rec.count('threads_started_by_program')
        self._actor = _spawn_thread(self._body, 't')
        self.ident = 140000000000000 + 4096 * self._actor.tidx

    def is_alive(self):
        return self._actor is not None and not self._finished and \
            not self._actor.killed

    def join(self, timeout=None):
        S = CTX.S
        if self._actor is None:
            raise RuntimeError('cannot join thread before it is started')
        done = lambda: self._finished or self._actor.killed  # noqa: E731
        if timeout is None:
            S.block(done, 'thread.join')
            return
        fired = []
        h = S.at(S.clock + timeout, lambda: fired.append(1))
        S.block(lambda: done() or fired, 'thread.join', timeout)
        S.cancel(h)


class SimFuture:
    _SEQ = [0]

    def __init__(self):
        self._state = 'pending'
        self._result = None
        self._exc = None
        self._cbs = []
        self.seq = None
        self._actor = None

    def done(self):
        return self._state in ('finished', 'cancelled')

    def running(self):
        return self._state == 'running'

    def cancelled(self):
        return self._state == 'cancelled'

    def cancel(self):
        if self._state == 'pending':
            self._state = 'cancelled'
            SimFuture._SEQ[0] += 1
            self.seq = SimFuture._SEQ[0]
            return True
        return self._state == 'cancelled'

    def _finish(self, result=None, exc=None):
        self._result, self._exc = result, exc
        SimFuture._SEQ[0] += 1
        self.seq = SimFuture._SEQ[0]
        self._state = 'finished'
        for cb in self._cbs:
            try:
                cb(self)
            except Exception:
                pass

    def add_done_callback(self, fn):
        if self.done():
            fn(self)
        else:
            self._cbs.append(fn)

    def _wait(self, timeout):
        S = CTX.S
        if self.done():
            return
        if timeout is None:
            S.block(self.done, 'future.wait')
            return
        fired = []
        h = S.at(S.clock + timeout, lambda: fired.append(1))
        S.block(lambda: self.done() or fired, 'future.wait', timeout)
        S.cancel(h)
        if not self.done():
            import concurrent.futures as _cf
            raise _cf.TimeoutError()

    def result(self, timeout=None):
        self._wait(timeout)
        if self._state == 'cancelled':
            import concurrent.futures as _cf
            raise _cf.CancelledError()
        if self._exc is not None:
            raise self._exc
        return self._result

    def exception(self, timeout=None):
        self._wait(timeout)
        return self._exc


class SimThreadPoolExecutor:
    """concurrent.futures.ThreadPoolExecutor: at most max_workers actors of
    the calling process; a queued call starts when a worker is free."""

    def __init__(self, max_workers=None, thread_name_prefix='',
                 initializer=None, initargs=()):
        self._max = max_workers or 4
        self._queue = []
        self._running = 0
        self._shutdown = False
        self._init = (initializer, initargs)

    def _start_next(self):
        while self._queue and self._running < self._max:
            fut, fn, a, k = self._queue.pop(0)
            if fut.cancelled():
                continue
            self._running += 1
            fut._state = 'running'

            def body(fut=fut, fn=fn, a=a, k=k):
                try:
                    if self._init[0] is not None:
                        self._init[0](*self._init[1])
                    r = fn(*a, **k)
                except Exception as e:
                    CTX.S.yield_('future.done')
                    fut._finish(exc=e)
                else:
                    CTX.S.yield_('future.done')
                    fut._finish(result=r)
                finally:
                    self._running -= 1
                    if fut._state == 'running':
                        # the actor was killed before the call returned
                        fut._state = 'cancelled'
                    else:
                        self._start_next()

            fut._actor = _spawn_thread(body, 'f')

    def submit(self, fn, /, *args, **kwargs):
        if self._shutdown:
            raise RuntimeError('cannot schedule new futures after shutdown')
        S = CTX.S
        S.yield_('executor.submit')
        CTX.rec.count('threads_started_by_program')
        fut = SimFuture()
        self._queue.append((fut, fn, args, kwargs))
        self._start_next()
        return fut

    def map(self, fn, *iterables, timeout=None, chunksize=1):
        futs = [self.submit(fn, *a) for a in zip(*iterables)]

        def gen():
            for f in futs:
                yield f.result(timeout)

        return gen()

    def shutdown(self, wait=True, cancel_futures=False):
        self._shutdown = True
        if cancel_futures:
            for fut, *_ in self._queue:
                fut.cancel()
            self._queue.clear()
        if wait and CTX.S is not None and CTX.S.me() is not None:
            CTX.S.block(lambda: self._running == 0 and not self._queue,
                        'executor.shutdown')

    def __enter__(self):
        return self

    def __exit__(self, *a):
        self.shutdown(wait=True)
        return False


def sim_as_completed(fs, timeout=None):
    fs = list(fs)
    S = CTX.S
    pending = set(fs)
    fired = []
    h = S.at(S.clock + timeout, lambda: fired.append(1)) \
        if timeout is not None else None
    try:
        while pending:
            S.block(lambda: any(f.done() for f in pending) or fired,
                    'futures.as_completed')
            ready = sorted((f for f in pending if f.done()),
                           key=lambda f: f.seq)
            if not ready:
                import concurrent.futures as _cf
                raise _cf.TimeoutError()
            for f in ready:
                pending.discard(f)
                yield f
    finally:
        if h is not None:
            S.cancel(h)


def sim_wait(fs, timeout=None, return_when='ALL_COMPLETED'):
    import collections as _c
    fs = set(fs)
    S = CTX.S

    def cond():
        d = [f for f in fs if f.done()]
        if return_when == 'FIRST_COMPLETED':
            return bool(d)
        if return_when == 'FIRST_EXCEPTION' and any(
                f._exc is not None for f in d):
            return True
        return len(d) == len(fs)

    fired = []
    h = S.at(S.clock + timeout, lambda: fired.append(1)) \
        if timeout is not None else None
    S.block(lambda: cond() or fired, 'futures.wait')
    if h is not None:
        S.cancel(h)
    done = {f for f in fs if f.done()}
    return _c.namedtuple('DoneAndNotDoneFutures', 'done not_done')(
        done, fs - done)


class FakeFutures:
    """Stand-in for the module concurrent.futures."""
    ThreadPoolExecutor = SimThreadPoolExecutor
    Future = SimFuture
    as_completed = staticmethod(sim_as_completed)
    wait = staticmethod(sim_wait)
    FIRST_COMPLETED = 'FIRST_COMPLETED'
    FIRST_EXCEPTION = 'FIRST_EXCEPTION'
    ALL_COMPLETED = 'ALL_COMPLETED'

    def __getattr__(self, name):
        import concurrent.futures as _cf
        return getattr(_cf, name)


class FakeConcurrent:
    """Stand-in for the package ``concurrent``."""
    futures = FakeFutures()


class _ThreadingForTmpfiles:
    """Stand-in for the module ``threading`` in every ddsmt module."""
    Thread = SimThread
    Event = SimThreadEvent

    @staticmethod
    def Lock():
        return SimLock()

    @staticmethod
    def RLock():
        return SimLock(reentrant=True)

    def __getattr__(self, name):
        import threading
        return getattr(threading, name)

    @staticmethod
    def get_ident():
        # after fork the only thread of a worker is its main thread; all
        # processes report the same ident.  Threads started by the program
        # inside a process get idents of their own.
        S = CTX.S
        me = S.me() if S is not None else None
        return 140000000000000 + 4096 * (me.tidx if me is not None else 0)


# ---------------------------------------------------------------------------
# file seam of nodeio
# ---------------------------------------------------------------------------


class FileProxy:
    """Write-mode file of nodeio: every low-level call is a boundary."""

    def __init__(self, f, path, kind):
        self._f = f
        self._path = path
        self._kind = kind

    def write(self, s):
        if self._kind == 'cand':
            # private file: no boundary per low-level write, only faults
            fl = CTX.faults
            if fl is not None:
                fl.maybe_io_error('write', self._path)
            return self._f.write(s)
        CTX.rec.io_point(self._kind, 'pre-write')
        fl = CTX.faults
        if fl is not None and self._kind == 'out':
            try:
                fl.out_io('write', self._f, s)
            except OSError:
                CTX.rec.io_point(self._kind, 'write-failed')
                raise
        r = self._f.write(s)
        CTX.rec.io_point(self._kind, 'write')
        return r

    def writelines(self, lines):
        for ln in lines:
            self.write(ln)

    def flush(self):
        r = self._f.flush()
        CTX.rec.io_point(self._kind, 'flush')
        return r

    def close(self):
        fl = CTX.faults
        if (fl is not None and self._kind == 'out'
                and not self._f.closed):
            try:
                fl.out_io('close', self._f)
            except OSError:
                CTX.rec.io_point(self._kind, 'close-failed')
                raise
        r = self._f.close()
        CTX.rec.io_point(self._kind, 'close')
        if self._kind == 'out' and os.path.abspath(
                os.fspath(self._path)) == CTX.outpath:
            # in-place writer: the rewrite ends when the file is closed
            CTX.rec.fallback_end()
        return r

    def __enter__(self):
        return self

    def __exit__(self, *a):
        self.close()
        return False

    def __getattr__(self, n):
        return getattr(self._f, n)

    def __iter__(self):
        return iter(self._f)


def _kind_of(path):
    try:
        p = os.fspath(path)
    except TypeError:
        return None
    if isinstance(p, bytes):
        p = p.decode()
    ap = os.path.abspath(p)
    out = CTX.outpath
    if out:
        if ap == out:
            return 'out'
        # sibling scratch files of the output file (atomic-replace idiom)
        if (os.path.dirname(ap) == os.path.dirname(out)
                and os.path.basename(out) in os.path.basename(ap)):
            return 'out'
    if CTX.inpath and ap == CTX.inpath:
        return 'in'
    if '/ddsmt-' in ap and os.path.basename(ap).startswith('ddsmt-tmp-'):
        return 'cand'
    return None


def sim_open(path, mode='r', *a, **k):
    if CTX.rec is None or CTX.S is None or CTX.S.me() is None:
        return builtins.open(path, mode, *a, **k)
    kind = _kind_of(path)
    writing = any(c in mode for c in 'wax+')
    if kind is None or not writing:
        if kind == 'in' and writing:
            CTX.rec.count('violation.input_opened_for_writing')
        return builtins.open(path, mode, *a, **k)
    if kind == 'in':
        CTX.rec.input_write_opened(mode)
        return builtins.open(path, mode, *a, **k)
    if kind == 'out':
        CTX.rec.fallback_begin()
    CTX.rec.io_point(kind, 'pre-open')
    fl = CTX.faults
    if fl is not None and kind == 'cand':
        fl.maybe_io_error('open', path)
    f = builtins.open(path, mode, *a, **k)
    CTX.rec.io_point(kind, 'open')
    return FileProxy(f, path, kind)


class _OsForNodeio:
    """``os`` as seen by nodeio (if it imports it): renames are boundaries."""

    def __getattr__(self, name):
        v = getattr(os, name)
        if name in ('replace', 'rename', 'unlink', 'remove', 'fsync', 'link',
                    'truncate', 'ftruncate', 'fdopen', 'open', 'close',
                    'write'):

            def wrapped(*a, **k):
                CTX.rec.io_point('out', 'pre-' + name)
                r = v(*a, **k)
                CTX.rec.io_point('out', name)
                if name in ('replace', 'rename') and len(a) > 1:
                    try:
                        if os.path.abspath(os.fspath(a[1])) == CTX.outpath:
                            CTX.rec.fallback_end()
                    except TypeError:
                        pass
                return r

            return wrapped
        return v
