"""Seeded baton scheduler: real threads used as coroutines.

Exactly one actor holds the baton at any time.  An actor gives the baton up
only at a yield point; which actor continues (or whether simulated time passes
instead) is decided by the choice source.  One choice source = one repeatable
execution.
"""
import heapq
import random
import _thread
import threading
import time as _rtime


class ActorKilled(BaseException):
    """Raised inside an actor that has been killed (process terminated)."""


class Deadlock(BaseException):
    """No runnable actor and no pending timer: the simulated system stalled."""


class StepCap(BaseException):
    """The per-run cap on yield points was exceeded."""


class StopRun(BaseException):
    """The harness ends the run early (replay truncated to the prefix that
    matters)."""


class HangDetected(BaseException):
    """An actor made no yield point within the budget (real-time watchdog or
    deterministic jump budget)."""


class Choices:
    """Source of every nondeterministic decision of a run.

    In random mode decisions are drawn from a PRNG seeded by one integer; in
    replay mode they are read from a recorded list (0 once it is exhausted;
    0 always means "the least surprising option": keep running, shortest
    latency, no fault).  Every decision is recorded as a plain int.
    """

    def __init__(self, seed=None, replay=None):
        self.replay = list(replay) if replay is not None else None
        self.rng = random.Random(seed) if replay is None else None
        self.picks = []
        self.pos = 0

    def choose(self, n, weights=None):
        if n <= 1:
            return 0
        if self.replay is not None:
            if self.pos < len(self.replay):
                k = self.replay[self.pos] % n
            else:
                k = 0
            self.pos += 1
        elif weights is not None:
            k = self.rng.choices(range(n), weights=weights)[0]
        else:
            k = self.rng.randrange(n)
        self.picks.append(k)
        return k


class Actor:
    __slots__ = ('name', 'proc', 'sem', 'pred', 'done', 'killed', 'thread',
                 'nyield', 'started', 'order', 'pending_exc', 'is_main',
                 'tidx')

    def __init__(self, name, proc, order):
        self.name = name
        self.proc = proc
        # raw lock used as a binary semaphore (much cheaper than
        # threading.Semaphore): held <=> the actor has to wait
        self.sem = _thread.allocate_lock()
        self.sem.acquire()
        self.pred = None
        self.done = False
        self.killed = False
        self.thread = None
        self.nyield = 0
        self.started = False
        self.order = order
        self.pending_exc = None
        self.is_main = False
        # 0 = the initial thread of its process; >0 = a thread started by the
        # program under test inside that process
        self.tidx = 0


class Proc:
    """A simulated OS process: virtual pid + private copy of module state."""
    __slots__ = ('vpid', 'ns', 'name')

    def __init__(self, vpid, name, ns=None):
        self.vpid = vpid
        self.name = name
        self.ns = ns


class Sched:
    """Scheduler personalities (cfg['personality']):
    uniform   - every runnable actor equally likely at every yield point
    sticky    - keep the current actor with probability 1-p_switch
    starve:<prefix> - actors whose name starts with prefix are chosen with
                3 % probability while anybody else is runnable, and when only
                they are runnable time passes with 70 % probability
    rr        - round robin
    """

    def __init__(self, choices, cfg=None, switch_hook=None):
        cfg = cfg or {}
        self.ch = choices
        self.personality = cfg.get('personality', 'uniform')
        self.p_switch = cfg.get('p_switch', 0.3)
        self.p_time = cfg.get('p_time', 0.05)
        self.max_desched = cfg.get('max_desched', 0.25)
        self.step_cap = cfg.get('step_cap', 200000)
        self.actors = []
        self.cur = None
        self.clock = 0.0
        self.timers = []
        self.tseq = 0
        self.log = []
        self.by_thread = {}
        self.next_vpid = cfg.get('vpid_base', 1000)
        self.steps = 0
        self.switches = 0
        self.time_passes = 0
        self.main = None
        self.switch_hook = switch_hook
        self.last_progress = _rtime.monotonic()
        self.t_start = _rtime.monotonic()
        self.wall_cap = cfg.get('wall_cap', 30.0)
        self.wall_capped = False
        self.finished = False
        self.rr_last = 0
        # (k, phase): SIGINT is delivered to main at its k-th yield point,
        # phase 0 = on arrival (before it blocks), 1 = when it resumes from it
        self.interrupt_at = None
        self.interrupt_exc = KeyboardInterrupt
        self.on_main_yield = None  # callback(nyield, info) before each main yield
        self.actor_fault = None  # (name prefix, n-th yield, exception class)
        self.stopped = False
        # deterministic hang budget (jumps since last yield), see sim
        self.jumps = 0
        self.max_jumps = 0
        # line-level pre-emption: tuple of gaps to draw from, or None (off)
        self.line_gap = cfg.get('line_gap')
        self.line_countdown = self.line_gap[0] if self.line_gap else 0

    # -- bookkeeping ------------------------------------------------------
    def new_vpid(self):
        self.next_vpid += 1
        return self.next_vpid

    def me(self):
        return self.by_thread.get(threading.get_ident())

    def ev(self, *a):
        self.log.append((self.cur.name if self.cur else '-', ) + a)

    def add_main(self, proc):
        a = Actor('main', proc, 0)
        a.thread = threading.current_thread()
        a.started = True
        a.is_main = True
        self.by_thread[threading.get_ident()] = a
        self.actors.append(a)
        self.cur = a
        self.main = a
        return a

    def spawn(self, name, fn, proc=None):
        a = Actor(name, proc if proc is not None else self.cur.proc,
                  len(self.actors))

        def run():
            self.by_thread[threading.get_ident()] = a
            a.sem.acquire()
            a.started = True
            try:
                if not a.killed:
                    fn()
            except ActorKilled:
                pass
            except BaseException as e:  # propagate to main
                if not a.killed:
                    self._post_to_main(e)
            a.done = True
            if a.killed:
                return
            try:
                self._handoff(a, final=True)
            except BaseException:
                pass

        a.thread = threading.Thread(target=run, daemon=True, name=name)
        self.actors.append(a)
        a.thread.start()
        return a

    def _post_to_main(self, exc):
        m = self.main
        if m.pending_exc is None:
            m.pending_exc = exc
        m.pred = None

    def at(self, t, cb):
        """Schedule ``cb`` at simulated time ``t``; returns a handle for
        ``cancel``."""
        self.tseq += 1
        h = [t, self.tseq, cb]
        heapq.heappush(self.timers, h)
        return h

    def cancel(self, h):
        h[2] = None

    def _drop_cancelled(self):
        while self.timers and self.timers[0][2] is None:
            heapq.heappop(self.timers)

    # -- the one place where the next step is decided -----------------------
    def _runnable(self):
        res = []
        for a in self.actors:
            if a.done or a.killed:
                continue
            if a.pending_exc is not None or a.pred is None or a.pred():
                res.append(a)
        return res

    def _fire_due(self):
        self._drop_cancelled()
        while self.timers and self.timers[0][0] <= self.clock:
            cb = heapq.heappop(self.timers)[2]
            if cb is not None:
                cb()
            self._drop_cancelled()

    def _advance(self):
        t, _, cb = heapq.heappop(self.timers)
        if cb is None:
            return
        if t > self.clock:
            self.clock = t
        cb()
        self.time_passes += 1
        self._drop_cancelled()

    def _pick(self, me):
        while True:
            self._fire_due()
            r = self._runnable()
            if not r:
                if not self.timers:
                    return None
                self._advance()
                continue
            if self.main.pending_exc is not None:
                return self.main
            starve = None
            if self.personality.startswith('starve:'):
                starve = self.personality[7:]
            if (self.timers and self.p_time > 0 and
                    self.timers[0][0] - self.clock <= self.max_desched):
                # a runnable process may be descheduled by the OS for a while
                # (bounded: this models jitter, not a stalled machine)
                p = self.p_time
                if starve and all(a.name.startswith(starve) for a in r):
                    p = 0.7
                if self.ch.choose(2, (1 - p, p)) == 1:
                    self._advance()
                    continue
            # current actor first: choice 0 == no context switch
            if me in r:
                r.remove(me)
                r.insert(0, me)
            if len(r) == 1:
                return r[0]
            n = len(r)
            if self.personality == 'rr':
                self.rr_last = (self.rr_last + 1) % n
                w = [1 if i == self.rr_last else 0.02 for i in range(n)]
            elif starve:
                w = [0.03 if a.name.startswith(starve) else 1.0 for a in r]
            elif self.personality == 'sticky' and r[0] is me:
                w = [1 - self.p_switch] + [self.p_switch / (n - 1)] * (n - 1)
            else:
                w = [1.0] * n
            return r[self.ch.choose(n, w)]

    def _handoff(self, me, final=False):
        if self.stopped:
            if final:
                return
            raise ActorKilled()
        nxt = self._pick(me)
        if nxt is None:
            self._post_to_main(Deadlock())
            nxt = self.main
        if nxt is me and not final:
            self._after_resume(me)
            return
        if nxt is me:
            return
        self.switches += 1
        if self.switch_hook is not None and nxt.proc is not me.proc:
            self.switch_hook(me.proc, nxt.proc)
        self.cur = nxt
        nxt.sem.release()
        if not final:
            me.sem.acquire()
            self._after_resume(me)

    def _after_resume(self, me):
        self.last_progress = _rtime.monotonic()
        if self.jumps > self.max_jumps:
            self.max_jumps = self.jumps
        self.jumps = 0
        if me.killed:
            raise ActorKilled()
        if me.pending_exc is not None:
            e, me.pending_exc = me.pending_exc, None
            raise e

    # -- yield points ------------------------------------------------------
    def yield_(self, *info):
        me = self.me()
        if me is None:
            return
        if me.killed or self.stopped:
            return
        me.nyield += 1
        self.steps += 1
        self.ev(*info)
        if self.steps > self.step_cap or (
                self.steps & 255 == 0
                and _rtime.monotonic() - self.t_start > self.wall_cap):
            # harness limit: the run is abandoned as inconclusive
            if self.steps <= self.step_cap:
                self.wall_capped = True
            if me is self.main:
                raise StepCap()
            self._post_to_main(StepCap())
        if me.is_main:
            self._main_point(me, info)
        elif self.actor_fault is not None:
            self._actor_point(me)
        self._handoff(me)
        if me.is_main:
            self._main_point_after(me)

    def block(self, pred, *info):
        me = self.me()
        if me is None or me.killed or self.stopped:
            if me is not None and (me.killed or self.stopped):
                raise ActorKilled()
            return
        me.nyield += 1
        self.steps += 1
        self.ev(*info)
        if me.is_main:
            self._main_point(me, info)
        me.pred = pred
        try:
            self._handoff(me)
        finally:
            me.pred = None
        if me.is_main:
            self._main_point_after(me)

    def _actor_point(self, me):
        """Injected exception (e.g. MemoryError) in a non-main actor at its
        n-th yield point; fires once."""
        prefix, nth, exc = self.actor_fault
        if me.name.startswith(prefix) and me.nyield >= nth:
            self.actor_fault = None
            self.ev('ACTOR-FAULT', exc.__name__)
            raise exc('injected in ' + me.name)

    def _main_point(self, me, info):
        if self.on_main_yield is not None:
            self.on_main_yield(me.nyield, info)
        ia = self.interrupt_at
        if ia is not None and ia[0] == me.nyield and ia[1] == 0:
            self.interrupt_at = None
            self.ev('SIGINT')
            raise self.interrupt_exc()

    def _main_point_after(self, me):
        ia = self.interrupt_at
        if ia is not None and ia[0] == me.nyield and ia[1] == 1:
            self.interrupt_at = None
            self.ev('SIGINT')
            raise self.interrupt_exc()

    def kill(self, a):
        """Terminate actor ``a`` (process kill).  It unwinds synchronously and
        the baton stays with the caller."""
        if a.done or a.killed:
            a.killed = True
            return
        a.killed = True
        a.pred = None
        a.sem.release()
        a.thread.join(timeout=20)
        if a.thread.is_alive():
            raise RuntimeError(f'actor {a.name} did not unwind')
        a.done = True

    def shutdown(self):
        """End of run: kill every remaining actor."""
        self.stopped = True
        for a in self.actors:
            if a is self.main:
                continue
            if not a.done:
                self.kill(a)
        self.finished = True
