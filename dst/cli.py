#!/usr/bin/env python3
"""Command line of the deterministic-simulation checks.

  cli.py check <Cxx> --tier quick|thorough
  cli.py replay <replay.json>
  cli.py minimise <replay.json> <budget_s>
  cli.py selftest determinism [n]
  cli.py case <Cxx> <index> [--tier t] [--save f]   (one case, from VERIF_SEED)
  cli.py conformance [n]       (informational: stubs vs real processes)
  cli.py worker ...            (internal)
"""
import json
import os
import sys

HERE = os.path.dirname(os.path.abspath(__file__))
sys.path.insert(0, os.path.dirname(HERE))


def _reexec_with_fixed_hashseed():
    if os.environ.get('PYTHONHASHSEED') != '0' and not os.environ.get(
            'DST_KEEP_HASHSEED'):
        env = dict(os.environ)
        env['PYTHONHASHSEED'] = '0'
        env['PYTHONDONTWRITEBYTECODE'] = '1'
        os.execve(sys.executable, [sys.executable] + sys.argv, env)


def main(argv):
    if len(argv) < 2:
        print(__doc__)
        return 2
    cmd = argv[1]
    if cmd == 'check':
        from dst import batch
        prop = argv[2]
        tier = os.environ.get('VERIF_TIER') or 'quick'
        if '--tier' in argv:
            tier = argv[argv.index('--tier') + 1]
        return batch.check(prop, tier)
    if cmd == 'worker':
        _reexec_with_fixed_hashseed()
        from dst import batch
        a = argv[2:]
        batch.worker_main(a[0], a[1], int(a[2]), int(a[3]), int(a[4]),
                          int(a[5]), int(a[6]), a[7])
        return 0
    if cmd == 'replay':
        _reexec_with_fixed_hashseed()
        from dst import replay
        return replay.replay(argv[2])
    if cmd == 'minimise':
        _reexec_with_fixed_hashseed()
        from dst import minimise
        return minimise.minimise_file(argv[2], int(argv[3]) if len(argv) > 3 else 60)
    if cmd == 'chain':
        # internal: run one spec under the current PYTHONHASHSEED, print chain
        from dst.oracles import c18
        with open(argv[2]) as f:
            spec = json.load(f)
        print('CHAIN ' + json.dumps([c18.chain_of(spec)[0], None]))
        return 0
    if cmd == 'case':
        # one case of a check, regenerated from (VERIF_SEED, property, index):
        #   cli.py case <Cxx> <index> [--tier t] [--save file.json]
        _reexec_with_fixed_hashseed()
        import random
        from dst import batch, registry, workload
        tier = argv[argv.index('--tier') + 1] if '--tier' in argv else 'quick'
        workload.TIER = tier
        prop = registry.get(argv[2])
        index = int(argv[3])
        vs = int(os.environ.get('VERIF_SEED', '0'))
        prop.current_index = index
        case = prop.gen(random.Random(batch.case_seed(vs, argv[2], index)), tier)
        case.update(index=index, verif_seed=vs, wid=0, nworkers=16)
        v = prop.run(case)
        if '--save' in argv:
            with open(argv[argv.index('--save') + 1], 'w') as f:
                json.dump(case, f)
        print(json.dumps({
            'property': argv[2], 'verif_seed': vs, 'index': index,
            'aborted': v.aborted, 'nontrivial': v.nontrivial,
            'trace_digests': v.digests, 'sample': v.sample,
            'violations': [x['sig'] + ': ' + x['msg'] for x in v.violations],
        }, indent=1, default=str))
        return 1 if v.violations else 0
    if cmd == 'conformance':
        _reexec_with_fixed_hashseed()
        from dst import conformance
        return conformance.main(argv[2:])
    if cmd == 'selftest':
        from dst import selftest
        return selftest.main(argv[2:])
    print(__doc__)
    return 2


if __name__ == '__main__':
    sys.exit(main(sys.argv))
