"""Property id -> check object."""
import importlib

_IDS = ['C01', 'C02', 'C03', 'C04', 'C05', 'C06', 'C09', 'C10', 'C13', 'C14',
        'C18']


def get(prop_id):
    mod = importlib.import_module(f'dst.oracles.{prop_id.lower()}')
    return getattr(mod, prop_id)()


def ids():
    return list(_IDS)
