"""Read-only probes on ddsmt (inner observation layer) + the import of ddsmt.

Probes rebind module/class attributes once per process; they consult
``CTX.rec`` at call time and are transparent when no run is in progress.
Probes never draw from the choice source and never construct ddsmt nodes.
A probed name that no longer exists is reported in ``MISSING`` and simply
not probed (the oracles then fall back to the outer layer).
"""
import os
import sys
import threading

from . import reftok
from .seams import CTX
from . import seams

MISSING = []
M = None  # namespace of imported ddsmt modules
LINE_CODES = {}
IO_CODES = set()
TOOL = 3


class Mods:
    pass


def import_ddsmt(repo=None):
    """Import ddsmt from the working tree under test (default /repo)."""
    global M
    if M is not None:
        return M
    repo = repo or os.environ.get('DDSMT_SIM_REPO', '/repo')
    sys.path.insert(0, repo)
    saved = sys.argv
    sys.argv = ['ddsmt', 'in.smt2', 'out.smt2', 'cmd']
    try:
        import multiprocessing  # noqa
        from ddsmt import (nodes, nodeio, options, checker, tmpfiles, smtlib,
                           cli, strategy_ddmin, strategy_hierarchical,
                           mutators, mutator_utils, debug_utils, progress)
        from ddsmt import __main__ as ddmain
    finally:
        sys.argv = saved
    m = Mods()
    m.repo = repo
    for k, v in dict(nodes=nodes,
                     nodeio=nodeio,
                     options=options,
                     checker=checker,
                     tmpfiles=tmpfiles,
                     smtlib=smtlib,
                     cli=cli,
                     ddmin=strategy_ddmin,
                     hier=strategy_hierarchical,
                     mutators=mutators,
                     mutator_utils=mutator_utils,
                     debug_utils=debug_utils,
                     progress=progress,
                     ddmain=ddmain).items():
        setattr(m, k, v)
    src = os.path.realpath(nodes.__file__)
    if not src.startswith(os.path.realpath(repo) + os.sep):
        raise RuntimeError(f'ddsmt imported from {src}, expected {repo}')
    M = m
    # debug_utils parses sys.argv at import time: forget that
    setattr(options, '__PARSED_ARGS', None)
    seams.init_state_slots()
    return m


def _actor():
    S = CTX.S
    if S is None:
        return None
    me = S.me()
    # threads started by the program ('w7.f1') count as their process' actor
    return me.name.split('.')[0] if me is not None else None


def _wrap_module_attr(mod, name, make):
    if not hasattr(mod, name):
        MISSING.append(f'{mod.__name__}.{name}')
        return
    orig = getattr(mod, name)
    setattr(mod, name, make(orig))


def ids_duplicate(exprs):
    """Return a description of a node identity occurring at two positions of
    the list of trees, or None."""
    seen = set()
    st = list(exprs) if not hasattr(exprs, 'data') else [exprs]
    while st:
        e = st.pop()
        if e.id in seen:
            return (e.id, ' '.join(reftok.tree_tokens(e))[:60])
        seen.add(e.id)
        if not isinstance(e.data, str):
            st.extend(e.data)
    return None


def walk(rec, exprs):
    """(tokens, token digest, structure digest) of a list of trees, one
    traversal, remembered for the few lists seen last (the same list object is
    rendered, applied to and checked many times).  The memo is keyed by the
    identity of the list and of its elements; nodes are immutable."""
    cache = rec.__dict__.setdefault('_walk_cache', [])
    key = tuple(map(id, exprs))
    for ent in cache:
        if ent[0] is exprs and ent[1] == key:
            return ent[2], ent[3], ent[4]
    toks, struct = reftok.tree_both(exprs)
    ent = (exprs, key, toks, rec.dig(toks), reftok.digest(struct))
    cache.insert(0, ent)
    del cache[6:]
    return ent[2], ent[3], ent[4]


def _is_node_list(x):
    """A list of ddsmt nodes (possibly empty)?"""
    if not isinstance(x, list):
        return False
    N = M.nodes.Node
    return all(isinstance(e, N) for e in x[:3])


def _own_functions(mod):
    """Plain functions defined in ``mod`` (name, function)."""
    import types
    fn = getattr(mod, '__file__', None)
    out = []
    for name, obj in sorted(vars(mod).items()):
        if isinstance(obj, types.FunctionType) and fn and os.path.abspath(
                obj.__code__.co_filename) == os.path.abspath(fn):
            out.append((name, obj))
    return out


def install_probes():
    m = M

    # -- apply_simp -----------------------------------------------------------
    def mk_apply(orig):

        def apply_simp(exprs, simp):
            rec = CTX.rec
            if rec is None:
                return orig(exprs, simp)
            base, base_d, base_s = walk(rec, exprs) if isinstance(
                exprs, list) else (None, None, None)
            if base is not None and len(base) > rec.max_tokens:
                rec.max_tokens = len(base)
            origin = None
            keys = []
            for key in _simp_keys(simp):
                keys.append(repr(key[0]))
                if origin is None:
                    origin = rec.simp_origin.get(key)
            tid = rec.cur_task.get(_actor())
            # identity of a ddmin task: (round = number of task generators
            # constructed so far, task id within the round)
            simp_fp = f'{len(rec.rounds)}/{tid}' if tid is not None else None
            r = orig(exprs, simp)
            if base is not None and isinstance(r, list):
                _rt, r_d, r_s = walk(rec, r)
                rec.applies.append((rec.seq(), _actor(), base_d, r_d,
                                    len(simp.substs) if hasattr(
                                        simp, 'substs') else -1, origin,
                                    r_s, base_s, simp_fp))
            return r

        apply_simp.__wrapped__ = orig
        return apply_simp

    _wrap_module_attr(m.mutator_utils, 'apply_simp', mk_apply)
    for mod in (m.ddmin, m.hier):
        if hasattr(mod, 'apply_simp'):
            setattr(mod, 'apply_simp', m.mutator_utils.apply_simp)

    # -- ddmin worker: which task is being processed ----------------------------
    def mk_worker(orig):

        def _worker(task, *a, **k):
            rec = CTX.rec
            if rec is None:
                return orig(task, *a, **k)
            actor = _actor()
            prev = rec.cur_task.get(actor)
            rec.cur_task[actor] = getattr(task, 'id', None)
            try:
                return orig(task, *a, **k)
            finally:
                rec.cur_task[actor] = prev
                if actor == 'main':
                    rec.last_task_main = getattr(task, 'id', None)

        _worker.__wrapped__ = orig
        # the function is sent to the pool by reference: it must be found
        # under its own name in its module
        _worker.__module__ = orig.__module__
        _worker.__qualname__ = orig.__qualname__
        _worker.__name__ = orig.__name__
        return _worker

    if hasattr(m.ddmin, '_worker'):
        _wrap_module_attr(m.ddmin, '_worker', mk_worker)
    # else: renamed; the pool records the task of every worker itself, only
    # the sequential path (main calls the worker function directly) loses the
    # task id (ddmin rules fall back to "no attribution")

    # -- check_exprs ------------------------------------------------------------
    def mk_check(orig):

        def check_exprs(*args, **k):
            rec = CTX.rec
            exprs = args[0] if args else None
            a = args[1:]
            if rec is None or not _is_node_list(exprs) or (
                    generic_check and rec.open_checks.get(_actor())):
                return orig(*args, **k)
            S = CTX.S
            actor = _actor()
            try:
                if isinstance(exprs, list):
                    toks, dig, _s = walk(rec, exprs)
                else:
                    toks = reftok.tree_tokens(exprs)
                    dig = rec.dig(toks)
                if len(toks) > rec.max_tokens:
                    rec.max_tokens = len(toks)
                sq = reftok.digest((''.join(''.join(toks).split()), ))
            except Exception:
                dig = sq = None
            c = {
                'idx': len(rec.checks),
                'actor': actor,
                'dig': dig,
                'sq': sq,
                'seq0': rec.seq(),
                't0': S.clock,
                'inv': [],
                'verdict': None,
                'seq1': None,
                'ids': id(exprs),
            }
            rec.checks.append(c)
            prev = rec.open_checks.get(actor)
            rec.open_checks[actor] = c
            try:
                v = orig(exprs, *a, **k)
                c['verdict'] = bool(v)
                return v
            finally:
                c['seq1'] = rec.seq()
                c['t1'] = S.clock
                if prev is None:
                    rec.open_checks.pop(actor, None)
                else:
                    rec.open_checks[actor] = prev

        check_exprs.__wrapped__ = orig
        return check_exprs

    generic_check = not hasattr(m.checker, 'check_exprs')
    if not generic_check:
        _wrap_module_attr(m.checker, 'check_exprs', mk_check)
    else:
        # renamed: whichever function of the checker is called with a list of
        # nodes is the check of a candidate (the outermost such call counts)
        MISSING.append('ddsmt.checker.check_exprs (generic probe used)')
        for name, f in _own_functions(m.checker):
            w = mk_check(f)
            w.__name__ = f.__name__
            w.__qualname__ = f.__qualname__
            w.__module__ = f.__module__
            setattr(m.checker, name, w)

    # -- write_smtlib_to_file ---------------------------------------------------
    def mk_write(orig):

        def write_smtlib_to_file(*args, **k):
            rec = CTX.rec
            if rec is None or len(args) < 2 or not isinstance(
                    args[0], (str, os.PathLike)) or rec.rewrite_depth > 0:
                return orig(*args, **k)
            filename, exprs, a = args[0], args[1], args[2:]
            is_out = os.path.abspath(filename) == CTX.outpath
            if not is_out or not (_is_node_list(exprs)
                                  or hasattr(exprs, 'data')):
                return orig(*args, **k)
            try:
                if isinstance(exprs, list):
                    _t, dig, sdig = walk(rec, exprs)
                else:
                    _t = reftok.tree_tokens(exprs)
                    dig = rec.dig(_t)
                    sdig = reftok.digest(reftok.tree_struct(exprs))
                if len(_t) > rec.max_tokens:
                    rec.max_tokens = len(_t)
                sq_tree = ''.join(''.join(_t).split())
            except Exception:
                dig = sdig = sq_tree = None
            w = {
                'idx': len(rec.writes),
                'actor': _actor(),
                'dig': dig,
                'sdig': sdig,
                # ddmin: (round, id) of the task whose result main holds
                'ddmin_task': f'{len(rec.rounds)}/{rec.last_task_main}'
                if rec.last_task_main is not None else None,
                # (used once: the next adoption needs a result of its own)
                'seq0': rec.seq(),
                'seq1': None,
                'completed': False,
                'dup': None,
            }
            rec.writes.append(w)
            rec.last_task_main = None
            rec.begin_rewrite('probe')
            try:
                r = orig(filename, exprs, *a, **k)
            except BaseException:
                rec.abort_rewrite()
                raise
            w['completed'] = True
            w['seq1'] = rec.seq()
            try:
                rec.end_rewrite('probe')
            finally:
                data = rec.complete_texts[-1]
                ft = reftok.tokenize(data.decode(errors='replace')
                                     ) if data is not None else None
                w['file_dig'] = rec.dig(ft) if ft is not None else None
                # the file must hold exactly the adopted input (compared
                # without white space)
                w['file_matches_tree'] = (
                    sq_tree is None or ft is None
                    or ''.join(''.join(ft).split()) == sq_tree)
            return r

        write_smtlib_to_file.__wrapped__ = orig
        return write_smtlib_to_file

    if hasattr(m.nodeio, 'write_smtlib_to_file'):
        _wrap_module_attr(m.nodeio, 'write_smtlib_to_file', mk_write)
    else:
        # renamed: whichever function of nodeio is called with the output
        # file's name and a list of nodes is the writer
        MISSING.append('ddsmt.nodeio.write_smtlib_to_file (generic probe used)')
        for name, f in _own_functions(m.nodeio):
            w = mk_write(f)
            w.__name__ = f.__name__
            w.__qualname__ = f.__qualname__
            w.__module__ = f.__module__
            setattr(m.nodeio, name, w)

    # -- round starts (C13) ----------------------------------------------------
    def wrap_init(cls, kind, argpos):
        if cls is None:
            MISSING.append(kind)
            return
        orig = cls.__init__
        if getattr(orig, '__wrapped__', None) is not None:
            return

        def __init__(self, *a, **k):
            rec = CTX.rec
            if rec is not None:
                try:
                    exprs = a[argpos] if argpos is not None and len(
                        a) > argpos else None
                    if exprs is None:
                        exprs = k.get('exprs', k.get('original'))
                    if exprs is None and argpos is None:
                        # generic: the first argument that is a non-empty
                        # list of nodes
                        for x in list(a[:5]) + list(k.values()):
                            if x and _is_node_list(x):
                                exprs = x
                                break
                    if isinstance(exprs, list):
                        ntok = len(reftok.tree_tokens(exprs))
                        if ntok > rec.max_tokens:
                            rec.max_tokens = ntok
                        dup = ids_duplicate(exprs)
                        # a new round: no result of an earlier one counts
                        rec.last_task_main = None
                        rec.rounds.append({
                            'kind': kind,
                            'seq': rec.seq(),
                            'dup': dup,
                            'dig': rec.dig(reftok.tree_tokens(exprs)),
                            'nnodes': None,
                        })
                except Exception as e:  # never disturb the run
                    rec.count('probe_error.' + kind)
            return orig(self, *a, **k)

        __init__.__wrapped__ = orig
        cls.__init__ = __init__

    for mod, cname, pos in ((m.ddmin, 'TaskGenerator', 0),
                            (m.hier, 'Producer', 2)):
        if hasattr(mod, cname):
            wrap_init(getattr(mod, cname), cname, pos)
        else:
            # renamed: every class of the module whose constructor receives a
            # list of nodes starts a round
            MISSING.append(f'{cname} (generic probe used)')
            for n2, c2 in sorted(vars(mod).items()):
                if isinstance(c2, type) and c2.__module__ == mod.__name__ \
                        and '__init__' in vars(c2):
                    wrap_init(c2, n2, None)

    # -- reduplicate ------------------------------------------------------------
    def mk_redup(orig):

        def reduplicate(exprs, *a, **k):
            rec = CTX.rec
            if rec is None or not isinstance(exprs, list):
                return orig(exprs, *a, **k)
            before = reftok.tree_tokens(exprs)
            # nodes whose id is unique before
            cnt = {}
            objs = {}
            st = list(exprs)
            while st:
                e = st.pop()
                cnt[e.id] = cnt.get(e.id, 0) + 1
                objs[e.id] = e
                if not isinstance(e.data, str):
                    st.extend(e.data)
            shared = sum(1 for v in cnt.values() if v > 1)
            try:
                # reach probe: the shared id counter is behind an identity
                # that occurs in the input (fresh ids would not be fresh)
                idc = getattr(M.nodes.Node, '_Node__ID_COUNTER', None)
                if idc is not None and cnt and getattr(idc, '_v', None) is not None:
                    if idc._v < max(cnt):
                        rec.count('reduplicate_with_id_counter_behind_input')
            except Exception:
                pass
            r = orig(exprs, *a, **k)
            d = {
                'seq': rec.seq(),
                'shared_ids': shared,
                'tokens_same': None,
                'dup_after': None,
                'unique_kept': None,
                'shared_leafless': 0,
            }
            try:
                d['shared_leafless'] = sum(
                    1 for i, v in cnt.items()
                    if v > 1 and not isinstance(objs[i].data, str)
                    and not any(True for _ in _leaves(objs[i])))
                d['tokens_same'] = (reftok.tree_tokens(r) == before)
                d['dup_after'] = ids_duplicate(r)
                # every node whose id was unique before must be the same
                # object (same id at least) after, unless an ancestor of it
                # ... no: unless one of its descendants was re-created.
                after_ids = set()
                st = list(r)
                while st:
                    e = st.pop()
                    after_ids.add(e.id)
                    if not isinstance(e.data, str):
                        st.extend(e.data)
                lost = []
                for i, v in (cnt.items() if len(cnt) <= 4000 else ()):
                    if v == 1 and i not in after_ids:
                        # legitimate only if some descendant was shared
                        if not _has_shared_descendant(objs[i], cnt):
                            lost.append(i)
                d['unique_kept'] = not lost
                if lost:
                    d['lost_example'] = ' '.join(
                        reftok.tree_tokens(objs[lost[0]]))[:60]
            except Exception:
                rec.count('probe_error.reduplicate')
            rec.redups.append(d)
            return r

        reduplicate.__wrapped__ = orig
        return reduplicate

    _wrap_module_attr(m.nodes, 'reduplicate', mk_redup)

    # -- strategy results -------------------------------------------------------
    def mk_reduce(orig, which):

        def reduce(exprs, *a, **k):
            rec = CTX.rec
            if rec is not None:
                rec.count('reduce.' + which)
                rec.reduce_starts.append((which, rec.seq()))
                rec.strategy_inputs = getattr(rec, 'strategy_inputs', [])
                rec.strategy_inputs.append(
                    (which, rec.dig(reftok.tree_tokens(exprs)),
                     reftok.digest(reftok.tree_struct(exprs))))
            seq0 = rec.seq() if rec is not None else 0
            try:
                r = orig(exprs, *a, **k)
            finally:
                if rec is not None and CTX.S is not None:
                    rec.reduce_spans.append((which, seq0, rec.seq()))
            if rec is not None:
                try:
                    rec.finals[which] = r[0]
                    rec.final_order.append(which)
                    rec.ntests = r[1]
                except Exception:
                    rec.count('probe_error.reduce')
            return r

        reduce.__wrapped__ = orig
        return reduce

    _wrap_module_attr(m.ddmin, 'reduce', lambda o: mk_reduce(o, 'ddmin'))
    _wrap_module_attr(m.hier, 'reduce', lambda o: mk_reduce(o, 'hierarchical'))

    # -- pass construction (C14: every enabled mutator is scheduled) --------------
    def mk_passes(which):

        def make(orig):

            def passes(*a, **k):
                r = orig(*a, **k)
                rec = CTX.rec
                if rec is not None:
                    try:
                        out = []
                        for p in r:
                            if isinstance(p, tuple):
                                p = p[0]
                            out.append(sorted(type(m).__name__ for m in p))
                        rec.passes[which] = out
                    except Exception:
                        rec.count('probe_error.passes')
                return r

            passes.__wrapped__ = orig
            return passes

        return make

    _wrap_module_attr(m.hier, 'get_passes', mk_passes('hierarchical'))
    _wrap_module_attr(m.ddmin, 'ddmin_passes', mk_passes('ddmin'))

    # -- collect_information ------------------------------------------------------
    def mk_collect(orig):

        def collect_information(exprs, *a, **k):
            rec = CTX.rec
            if rec is not None:
                rec.collects += 1
            return orig(exprs, *a, **k)

        return collect_information

    _wrap_module_attr(m.smtlib, 'collect_information', mk_collect)

    # -- mutator classes: consulted + injected failures --------------------------
    install_mutator_probes()


def _leaves(node):
    st = [node]
    while st:
        e = st.pop()
        if isinstance(e.data, str):
            yield e
        else:
            st.extend(e.data)


def _has_shared_descendant(node, cnt):
    st = list(node.data) if not isinstance(node.data, str) else []
    while st:
        e = st.pop()
        if cnt.get(e.id, 0) > 1:
            return True
        if not isinstance(e.data, str):
            st.extend(e.data)
    return False


MUTATOR_CLASSES = {}  # class name -> (group, option name, class)


def install_mutator_probes():
    m = M
    for group, (mod, table) in m.mutators.get_all_mutators().items():
        for cname, opt in table.items():
            cls = getattr(mod, cname, None)
            if cls is None:
                MISSING.append(f'{mod.__name__}.{cname}')
                continue
            MUTATOR_CLASSES[cname] = (group, opt, cls)
            for meth in ('filter', 'mutations', 'global_mutations'):
                f = cls.__dict__.get(meth)
                if f is None:
                    continue
                setattr(cls, meth, _mk_mut_wrapper(cname, meth, f))


def _simp_keys(simp):
    """Fingerprints of the entries of a Simplification (for attributing an
    applied simplification to the mutator that proposed it)."""
    try:
        for k, val in simp.substs.items():
            kk = k if isinstance(k, int) else ('N', ) + reftok.tree_struct(k)
            vv = None if val is None else reftok.tree_struct(val)
            yield (kk, vv)
    except Exception:
        return


def _mk_mut_wrapper(cname, meth, f):
    import inspect
    is_gen = inspect.isgeneratorfunction(f)

    def note(rec, simp):
        if len(rec.simp_origin) < 200000:
            for key in _simp_keys(simp):
                rec.simp_origin[key] = cname

    def wrapper(self, *a, **k):
        rec = CTX.rec
        if rec is not None:
            rec.consulted[cname] += 1
            fl = CTX.faults
            if fl is not None:
                fl.maybe_mutator_fault(cname, meth,
                                       sys._getframe(1).f_code.co_name)
        r = f(self, *a, **k)
        if rec is None or meth == 'filter' or r is None:
            return r
        if isinstance(r, (list, tuple)):
            for simp in r:
                note(rec, simp)
            return r

        def tagging(it):
            for simp in it:
                note(rec, simp)
                yield simp

        return tagging(r)

    def gen_wrapper(self, *a, **k):
        rec = CTX.rec
        if rec is not None:
            rec.consulted[cname] += 1
            fl = CTX.faults
            if fl is not None:
                fl.maybe_mutator_fault(cname, meth,
                                       sys._getframe(1).f_code.co_name)
        for simp in f(self, *a, **k):
            if rec is not None:
                note(rec, simp)
            yield simp

    w = gen_wrapper if is_gen else wrapper
    w.__wrapped__ = f
    w.__name__ = f.__name__
    w.__doc__ = f.__doc__
    return w


# ---------------------------------------------------------------------------
# line-level pre-emption (sys.monitoring)
# ---------------------------------------------------------------------------

GAPS = (4, 12, 40, 120, 400, 1500)


def _module_codes(mod):
    """Code objects of all functions and methods defined in ``mod`` (nested
    functions included), in a deterministic order."""
    import types
    found = {}

    def add_code(code):
        if code in found.values():
            return
        found[(code.co_filename, code.co_firstlineno, code.co_qualname)] = code
        for c in code.co_consts:
            if isinstance(c, types.CodeType):
                add_code(c)

    def add_obj(f):
        f = getattr(f, '__wrapped__', f)
        f = getattr(f, '__func__', f)
        code = getattr(f, '__code__', None)
        fn = getattr(mod, '__file__', None)
        if code is not None and fn and os.path.abspath(
                code.co_filename) == os.path.abspath(fn):
            add_code(code)

    for name, obj in sorted(vars(mod).items()):
        if isinstance(obj, type) and obj.__module__ == mod.__name__:
            for n2, o2 in sorted(vars(obj).items()):
                if isinstance(o2, (staticmethod, classmethod)):
                    o2 = o2.__func__
                if callable(o2):
                    add_obj(o2)
        elif callable(obj):
            add_obj(obj)
    return [found[k] for k in sorted(found)]


def _resolve_codes():
    m = M
    sched_codes = []
    io_codes = []

    def add(lst, obj, name):
        f = obj
        for part in name.split('.'):
            f = getattr(f, part, None) if f is not None else None
        if f is None:
            MISSING.append('code:' + name)
            return
        f = getattr(f, '__wrapped__', f)
        f = getattr(f, '__func__', f)
        code = getattr(f, '__code__', None)
        if code is not None:
            lst.append(code)

    # every function defined in the strategy modules and in the checker is
    # pre-emptible line by line; every function of nodeio is a candidate for
    # the rewrite boundaries (they only fire while main rewrites the output
    # file).  By module, not by name: a renamed or split function stays
    # instrumented.
    mods = [m.ddmin, m.hier, m.checker]
    for n in sorted(sys.modules):
        # helper modules a refactoring may have split off the strategies
        if n.startswith('ddsmt.strategy') and sys.modules[n] not in mods:
            mods.append(sys.modules[n])
    for mod in mods:
        sched_codes.extend(_module_codes(mod))
    io_codes.extend(_module_codes(m.nodeio))
    if not hasattr(m.ddmin, 'reduce'):
        MISSING.append('code:ddmin.reduce')
    return sched_codes, io_codes


def install_monitoring():
    mon = sys.monitoring
    try:
        mon.use_tool_id(TOOL, 'dst')
    except ValueError:
        return
    sched_codes, io_codes = _resolve_codes()
    for c in sched_codes:
        mon.set_local_events(TOOL, c, mon.events.LINE)
    # the writers are instrumented only while main rewrites the output file
    # (see io_lines): they also render every candidate file
    IO_CODES.update(io_codes)
    get_ident = threading.get_ident

    def on_line(code, line):
        S = CTX.S
        if S is None or S.stopped:
            return
        me = S.by_thread.get(get_ident())
        if me is None or me is not S.cur or me.killed:
            return
        rec = CTX.rec
        rec.line_events += 1
        if code in IO_CODES and me.is_main and rec.rewrite_in_progress:
            # every line of the writers is a crash / observation boundary
            S.yield_('io.line', code.co_name, line)
            return
        if S.line_gap is None:
            return
        S.line_countdown -= 1
        if S.line_countdown <= 0:
            S.line_countdown = S.line_gap[S.ch.choose(len(S.line_gap))]
            rec.count('fault.line_preempt')
            S.yield_('line', code.co_name, line)

    mon.register_callback(TOOL, mon.events.LINE, on_line)


def io_lines(on):
    """Enable/disable LINE events in nodeio's writer functions."""
    mon = sys.monitoring
    for c in IO_CODES:
        mon.set_local_events(TOOL, c, mon.events.LINE if on else 0)
