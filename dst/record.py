"""Recorder: the history of one simulated run.

Outer layer (cannot be bypassed by a refactor): command invocations, file
observations, exit status, captured output.  Inner layer: probe records.
"""
import collections
import os

from . import reftok
from .seams import CTX


class Recorder:

    def __init__(self, spec):
        self.spec = spec
        self.counters = collections.Counter()
        self.inv = []
        self.proc_by_pid = {}
        self.texts = {}  # digest -> readable token text (bounded)
        # inner layer
        self.applies = []  # (seq, actor, base_dig, cand_dig)
        self.checks = []  # dicts
        self.open_checks = {}  # actor -> check dict in progress
        self.writes = []  # dicts
        self.rounds = []  # dicts
        self.redups = []  # dicts
        self.finals = {}  # strategy -> final exprs (live objects)
        self.final_order = []
        self.consulted = collections.Counter()
        self.mut_errors = collections.Counter()
        self.flag_log = []
        self.collects = 0
        # output file observation
        self.obs = []  # (seq, main_nyield, tag, done, inprog, content)
        self.rewrites_done = 0
        self.rewrite_in_progress = False
        self.rewrite_windows = []  # [start_nyield, end_nyield]
        self.complete_texts = []  # A_1..A_n as bytes
        self.input_write_opens = []
        self.io_points_main = 0
        self.max_busy = 0
        self.max_inq = 0
        self.observe_output = spec.get('observe_output', False)
        self.n_obs = 0
        self.io_lines = spec.get('io_lines', False)
        self.line_events = 0
        self.strategy_inputs = []
        self.reduce_spans = []
        self.reduce_starts = []
        self.simp_origin = {}
        self.cur_task = {}
        self.snapshots = []
        self.fallback_active = False
        self.fallback_seq0 = None
        self.passes = {}
        self.max_tokens = 0
        self.last_task_main = None
        self.ntests = None
        self.last_obs_key = None
        self.n_points_in_rewrite = 0
        self.points_in_rewrite = []
        self.rewrite_depth = 0
        self.rewrite_interrupted = False

    # -- helpers --------------------------------------------------------------
    def count(self, key, n=1):
        self.counters[key] += n

    def seq(self):
        return len(CTX.S.log)

    def dig(self, tokens):
        d = reftok.digest(tokens)
        if d not in self.texts and len(self.texts) < 20000:
            self.texts[d] = ' '.join(tokens)
        return d

    def text(self, d):
        return self.texts.get(d, f'<{d}>')

    # -- command side ---------------------------------------------------------
    def which_cmd(self, proc):
        """Which of the two given commands does this process execute?  By
        the content of the executable (the copies ddSMT makes keep it)."""
        from . import seams
        r = getattr(proc, '_role', None)
        if r is not None:
            return r
        b = os.path.basename(proc.args[0]) if proc.args else ''
        try:
            with open(proc.args[0], 'r') as f:
                data = f.read()
        except (OSError, IndexError, UnicodeDecodeError):
            data = None
        if data == seams.CC_TEXT:
            r = 'cc'
        elif data == seams.MAIN_TEXT:
            r = 'main'
        else:
            proc._foreign_exec = True
            r = 'cc' if b in ('binary_cc', 'cmd_cc') else 'main'
        proc._role = r
        return r

    def on_popen(self, proc):
        S = CTX.S
        d = {
            'idx': len(self.inv),
            'seq': self.seq(),
            't0': S.clock,
            'actor': proc.actor,
            'vpid_actor': S.me().proc.vpid,
            'argv': [self.rel(a) for a in proc.args],
            'argv_raw': list(proc.args),
            'pid': proc.pid,
            'which': None,
            'file': self.rel(proc.args[-1]) if proc.args else None,
            'dig': None,
            'missing': None,
            'cls': None,
            'outcome': None,
            'timed_out': False,
            'killed': False,
            'kill_seq': None,
            'done_seq': None,
            't_done': None,
            'limits': {},
            'check': None,
            'read_seq': None,
        }
        d['role'] = self.which_cmd(proc)
        d['bin_same'] = not getattr(proc, '_foreign_exec', False)
        # a thread started inside a process works on that process' check
        oc = self.open_checks.get(str(proc.actor).split('.')[0])
        if oc is not None:
            d['check'] = oc['idx']
            oc['inv'].append(d['idx'])
        self.inv.append(d)
        self.proc_by_pid[proc.pid] = proc
        self.count('invocations')
        return d

    def on_read(self, proc, missing):
        d = proc.inv
        d['which'] = self.which_cmd(proc)
        toks = reftok.tokenize(proc.content)
        d['dig'] = self.dig(toks)
        d['sq'] = reftok.digest((''.join(''.join(toks).split()), ))
        d['ntok'] = len(toks)
        d['missing'] = missing
        d['cls'] = proc.outcome.cls
        d['outcome'] = (proc.outcome.exit, proc.outcome.out, proc.outcome.err)
        d['behaviour'] = proc.outcome.behaviour
        d['read_seq'] = self.seq()
        d['t_read'] = CTX.S.clock
        if missing:
            self.count('cand_file_missing_at_read')

    def on_done(self, proc, timed_out):
        d = proc.inv
        if timed_out:
            d['timed_out'] = True
            self.count('timeouts')
        else:
            d['done_seq'] = self.seq()
            d['t_done'] = CTX.S.clock
            d['returncode'] = proc.returncode
            d['captured'] = (proc._cap_out, proc._cap_err)

    def on_kill(self, proc):
        d = proc.inv
        d['killed'] = True
        d['kill_seq'] = self.seq()
        d['t_kill'] = CTX.S.clock
        self.count('kills')

    def on_limit(self, proc, res, lim):
        proc.inv['limits'][str(res)] = list(lim)

    def rel(self, p):
        sb = CTX.sandbox
        if isinstance(p, str) and sb and p.startswith(sb):
            r = p[len(sb):]
            # tmp dir name is random: normalise
            parts = r.split('/')
            parts = [
                'ddsmt-TMP' if x.startswith('ddsmt-') and len(x) > 12
                and not x.startswith('ddsmt-tmp-') else x for x in parts
            ]
            return '$SB' + '/'.join(parts)
        return p

    # -- pool side ------------------------------------------------------------
    def on_flag(self, fid, val):
        self.flag_log.append((self.seq(), fid, val))

    def on_task_start(self, busy):
        if busy > self.max_busy:
            self.max_busy = busy

    def on_task_put(self, n):
        if n > self.max_inq:
            self.max_inq = n

    # -- files ----------------------------------------------------------------
    def input_write_opened(self, mode):
        self.input_write_opens.append((self.seq(), mode))

    def read_out(self):
        try:
            fd = os.open(CTX.outpath, os.O_RDONLY)
        except FileNotFoundError:
            return None
        try:
            chunks = []
            while True:
                b = os.read(fd, 1 << 20)
                if not b:
                    break
                chunks.append(b)
            return b''.join(chunks)
        finally:
            os.close(fd)

    def observe(self, tag):
        """What another process opening the output file would see now (also
        what survives a SIGKILL of ddSMT now)."""
        data = self.read_out()
        self.n_obs += 1
        key = (self.rewrites_done, self.rewrite_in_progress, data)
        if key == self.last_obs_key:
            return
        self.last_obs_key = key
        S = CTX.S
        self.obs.append((self.seq(), S.main.nyield, str(tag),
                         self.rewrites_done, self.rewrite_in_progress, data))

    def on_main_yield(self, nyield, info):
        if self.rewrite_in_progress:
            self.n_points_in_rewrite += 1
            self.points_in_rewrite.append(nyield)
            if self.spec.get('snapshots') and len(
                    self.snapshots) < self.spec['snapshots']:
                # what a SIGKILL here leaves on disk next to the output
                # file; only states with a non-empty stray file are worth a
                # restart (an empty or absent one cannot leak anything)
                snap = {}
                d = os.path.dirname(CTX.outpath)
                base = os.path.basename(CTX.outpath)
                stray = False
                for fn in os.listdir(d):
                    if base in fn:
                        try:
                            with open(os.path.join(d, fn), 'rb') as f:
                                snap[fn] = f.read()
                            if fn != base and snap[fn]:
                                stray = True
                        except OSError:
                            pass
                if stray and (not self.snapshots
                              or self.snapshots[-1][1] != snap):
                    self.snapshots.append((nyield, snap))
        if self.observe_output and (self.rewrite_in_progress
                                    or nyield % 16 == 0):
            self.observe(info[0] if info else '')

    def begin_rewrite(self, how):
        if self.rewrite_depth == 0:
            self.rewrite_in_progress = True
            self.rewrite_windows.append([CTX.S.main.nyield, None])
            if self.io_lines:
                from . import probes
                probes.io_lines(True)
        self.rewrite_depth += 1

    def end_rewrite(self, how):
        self.rewrite_depth -= 1
        if self.rewrite_depth == 0:
            if self.io_lines:
                from . import probes
                probes.io_lines(False)
            self.rewrite_in_progress = False
            self.rewrites_done += 1
            self.rewrite_windows[-1][1] = CTX.S.main.nyield
            self.complete_texts.append(self.read_out())
            if self.spec.get('stop_after_writes') == self.rewrites_done:
                from . import sched
                raise sched.StopRun()

    # -- fallback when the write probe is not in place (renamed function): the
    # rewrite window and the written content are taken from the file seam ------
    def fallback_begin(self):
        if self.rewrite_depth == 0 and not self.fallback_active:
            me = CTX.S.me()
            if me is None or not me.is_main:
                return
            self.fallback_active = True
            self.fallback_seq0 = self.seq()
            self.rewrite_in_progress = True
            self.rewrite_windows.append([CTX.S.main.nyield, None])
            self.count('write_probe_fallback')

    def fallback_end(self):
        if not self.fallback_active:
            return
        self.fallback_active = False
        self.rewrite_in_progress = False
        self.rewrites_done += 1
        self.rewrite_windows[-1][1] = CTX.S.main.nyield
        data = self.read_out()
        self.complete_texts.append(data)
        toks = reftok.tokenize((data or b'').decode(errors='replace'))
        d = self.dig(toks)
        self.writes.append({
            'idx': len(self.writes), 'actor': 'main', 'dig': d, 'sdig': d,
            'ddmin_task': None, 'seq0': self.fallback_seq0,
            'seq1': self.seq(), 'completed': True, 'dup': None,
            'file_dig': d, 'fallback': True,
        })

    def abort_rewrite(self):
        """The rewrite was left by an exception (interrupt)."""
        self.rewrite_depth = 0
        if self.io_lines:
            from . import probes
            probes.io_lines(False)
        if self.rewrite_in_progress:
            self.rewrite_in_progress = False
            self.rewrite_interrupted = True
            self.rewrite_windows[-1][1] = CTX.S.main.nyield

    def io_point(self, kind, tag):
        """A boundary in nodeio's file access: a yield point (hence a crash /
        interrupt / observation point when main is rewriting the output)."""
        S = CTX.S
        me = S.me()
        if me is None:
            return
        if kind == 'out':
            if me.is_main:
                self.io_points_main += 1
            elif not tag.startswith('pre-'):
                self.count('violation.output_touched_by_non_main')
        S.yield_('io.' + kind, tag)
