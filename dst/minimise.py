"""Minimisation of a failing case while the same violation signature persists.

Order: schedule (zero blocks of the choice list: 0 = no context switch /
shortest latency / no time passing), scheduler knobs, faults, options, input
(top-level commands, then tokens of sub-terms are left alone), command model.
Every step is one replay of the whole case.
"""
import copy
import json
import time

from . import registry
from . import reftok
from . import gen_input


class Minimiser:

    def __init__(self, doc, budget):
        self.doc = doc
        self.sig = doc['violation']['sig']
        self.prop = registry.get(doc['property'])
        self.deadline = time.time() + budget
        self.tries = 0
        self.accepted = 0

    def left(self):
        return self.deadline - time.time()

    def still(self, case):
        if self.left() <= 0:
            return None
        self.tries += 1
        c = copy.deepcopy(case)
        try:
            v = self.prop.run(c)
        except Exception:
            return None
        for x in v.violations:
            if x['sig'] == self.sig:
                return (c, x, v)
        return None

    def run(self):
        case = self.doc['case']
        base = self.still(case)
        if base is None:
            return False
        case, viol, v = base
        self.best = (case, viol, v)

        def attempt(mut):
            c = copy.deepcopy(self.best[0])
            try:
                if mut(c) is False:
                    return False
            except Exception:
                return False
            r = self.still(c)
            if r is not None:
                self.best = r
                self.accepted += 1
                return True
            return False

        nruns = len(case['runs'])
        # 0. cut the run right after the output write the violation is about
        wk = (viol.get('detail') or {}).get('write_index')
        if wk is not None and nruns == 1:

            def cut(c):
                c['runs'][0]['stop_after_writes'] = wk

            attempt(cut)
        # 1. schedule
        for ri in range(nruns):
            ch = self.best[0]['runs'][ri].get('choices')
            if not ch:
                continue

            def allzero(c, ri=ri):
                c['runs'][ri]['choices'] = []

            if attempt(allzero):
                continue
            n = len(ch)
            size = max(1, n // 2)
            while size >= 16 and self.left() > 0:
                i = 0
                while i < n and self.left() > 0:
                    cur = self.best[0]['runs'][ri]['choices']
                    n = len(cur)
                    if i >= n:
                        break
                    if any(cur[i:i + size]):

                        def zero(c, ri=ri, i=i, size=size):
                            cc = c['runs'][ri]['choices']
                            cc[i:i + size] = [0] * len(cc[i:i + size])

                        attempt(zero)
                    i += size
                size //= 2

            def trunc(c, ri=ri):
                cc = c['runs'][ri]['choices']
                while cc and cc[-1] == 0:
                    cc.pop()

            attempt(trunc)
        # 2. scheduler knobs
        for ri in range(nruns):
            for key, val in (('line_gap', None), ('personality', 'sticky'),
                             ('p_time', 0.0), ('lookahead', 4)):

                def knob(c, ri=ri, key=key, val=val):
                    sc = c['runs'][ri].setdefault('sched', {})
                    if sc.get(key) == val:
                        return False
                    if val is None:
                        sc.pop(key, None)
                    else:
                        sc[key] = val
                    # the recorded choices no longer line up: search again
                    # from the seed is not possible, so keep them as they are

                attempt(knob)
        # 3. faults
        for ri in range(nruns):
            for key in list((self.best[0]['runs'][ri].get('faults')
                             or {}).keys()):

                def dropf(c, ri=ri, key=key):
                    c['runs'][ri]['faults'].pop(key, None)

                attempt(dropf)
        # 4. options
        for ri in range(nruns):
            i = 0
            while self.left() > 0:
                opts = self.best[0]['runs'][ri].get('opts', [])
                if i >= len(opts):
                    break
                o = opts[i]
                width = 2 if (i + 1 < len(opts)
                              and not opts[i + 1].startswith('-')) else 1

                def dropo(c, ri=ri, i=i, width=width):
                    del c['runs'][ri]['opts'][i:i + width]
                    _sync(c['runs'][ri])

                if not attempt(dropo):
                    i += width
        # 5. input: drop top-level items
        for ri in range(nruns):
            toks = reftok.tokenize(self.best[0]['runs'][ri]['input'])
            if not reftok.balanced(toks):
                continue
            items = reftok.top_level(toks)
            size = max(1, len(items) // 2)
            while size >= 1 and self.left() > 0:
                i = 0
                while i < len(items) and self.left() > 0:
                    cand = items[:i] + items[i + size:]

                    def seti(c, ri=ri, cand=cand):
                        c['runs'][ri]['input'] = '\n'.join(
                            gen_input.render_tokens(list(it)).strip()
                            for it in cand) + '\n'

                    if attempt(seti):
                        items = cand
                    else:
                        i += size
                size //= 2
        return True


def _sync(spec):
    """Keep derived convenience fields in line with the option list."""
    opts = spec.get('opts', [])
    if '--strategy' in opts:
        spec['strategy'] = opts[opts.index('--strategy') + 1]
    else:
        spec['strategy'] = 'hybrid'
    j = 1
    for f in ('-j', '--jobs'):
        if f in opts:
            j = int(opts[opts.index(f) + 1])
    spec['jobs'] = j


def minimise_file(path, budget):
    with open(path) as f:
        doc = json.load(f)
    m = Minimiser(doc, budget)
    ok = m.run()
    if not ok:
        print('[dst] minimise: the recorded case did not reproduce; left as is')
        return 0
    case, viol, v = m.best
    n0 = sum(len(r.get('choices') or []) for r in doc['case']['runs'])
    n1 = sum(len(r.get('choices') or []) for r in case['runs'])
    nz = sum(1 for r in case['runs'] for x in (r.get('choices') or []) if x)
    doc['case'] = case
    doc['violation'] = viol
    doc['minimised'] = True
    doc['trace_digests'] = v.digests
    doc['minimiser'] = {
        'replays': m.tries,
        'accepted_steps': m.accepted,
        'choices_before': n0,
        'choices_after': n1,
        'nonzero_choices_after': nz
    }
    with open(path, 'w') as f:
        json.dump(doc, f, indent=1)
    print(f'minimised in {m.tries} replays: {n0} -> {n1} scheduling choices '
          f'({nz} non-zero), input {len(doc["case"]["runs"][0]["input"])} chars')
    return 0
