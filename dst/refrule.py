"""Reference statement of "a candidate matches the golden run", written from
the documentation (quickstart: How Behavior is Compared with the Golden Run;
guide-scenarios: cross check) and the text of property C09 - not from
ddsmt/checker.py.

A run is (exit, out, err), or TIMEOUT when it did not finish in the limit.
"""

TIMEOUT = ('timeout', None, None)


def compare_cfg(opts):
    """Extract the comparison configuration from a ddsmt option list."""
    cfg = {
        'ignore_out': False,
        'ignore_err': False,
        'match_out': None,
        'match_err': None,
        'cc': {
            'ignore_out': False,
            'ignore_err': False,
            'match_out': None,
            'match_err': None
        },
        'unchecked': False,
        'timeout': None,
        'timeout_cc': None,
        'memout': None,
    }
    i = 0
    opts = list(opts)
    while i < len(opts):
        o = opts[i]
        if o == '--ignore-output':
            cfg['ignore_out'] = cfg['ignore_err'] = True
        elif o == '--ignore-out':
            cfg['ignore_out'] = True
        elif o == '--ignore-err':
            cfg['ignore_err'] = True
        elif o == '--match-out':
            cfg['match_out'] = opts[i + 1]
            i += 1
        elif o == '--match-err':
            cfg['match_err'] = opts[i + 1]
            i += 1
        elif o == '--ignore-output-cc':
            cfg['cc']['ignore_out'] = cfg['cc']['ignore_err'] = True
        elif o == '--match-out-cc':
            cfg['cc']['match_out'] = opts[i + 1]
            i += 1
        elif o == '--match-err-cc':
            cfg['cc']['match_err'] = opts[i + 1]
            i += 1
        elif o == '--unchecked':
            cfg['unchecked'] = True
        elif o == '--timeout':
            cfg['timeout'] = float(opts[i + 1])
            i += 1
        elif o == '--timeout-cc':
            cfg['timeout_cc'] = float(opts[i + 1])
            i += 1
        elif o == '--memout':
            cfg['memout'] = int(opts[i + 1])
            i += 1
        elif o in ('--strategy', '-j', '--jobs', '-c', '--cross-check',
                   '--replace-by-variable-mode'):
            i += 1
        i += 1
    return cfg


def stream_ok(ignored, match, golden, run):
    if ignored:
        return True
    if match:
        return run is not None and match in run
    return golden == run


def matches(c, golden, run):
    """The documented rule for one command."""
    if run[0] == 'timeout' or golden[0] == 'timeout':
        # a run exceeding the limit does not match unless the golden run
        # ended the same way
        return run[0] == golden[0]
    if run[0] != golden[0]:
        return False
    return (stream_ok(c['ignore_out'], c['match_out'], golden[1], run[1])
            and stream_ok(c['ignore_err'], c['match_err'], golden[2], run[2]))


def accepts(cfg, golden, run, golden_cc=None, run_cc=None):
    """Verdict for a candidate.  ``run_cc`` is None when the cross check was
    not (or need not be) run."""
    if cfg['unchecked']:
        return True
    if not matches(cfg, golden, run):
        return False
    if golden_cc is not None:
        if run_cc is None:
            return False
        return matches(cfg['cc'], golden_cc, run_cc)
    return True
