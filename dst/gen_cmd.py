"""Command models: deterministic functions tokens -> outcome (the "programs"
quantifier).  A model is a JSON-able spec so that replay files are
self-contained.

spec = {'rules': [[pred, class_name], ...], 'default': class_name,
        'classes': {name: {'exit': int, 'out': str, 'err': str,
                           'beh': [kind, ...]}}}
The first rule whose predicate holds on the reference token sequence of the
file decides the class.
"""
import re
import zlib

import random

from . import reftok
from .seams import Outcome


_NEAR_CACHE = {}


def ev_pred(p, toks, ctx):
    k = p['k']
    if k == 'true':
        return True
    if k == 'contains':
        s = ctx.get('set')
        if s is None:
            s = ctx['set'] = set(toks)
        return all(t in s for t in p['toks'])
    if k == 'count':
        return toks.count(p['tok']) >= p['n']
    if k == 'subseq':
        it = iter(toks)
        return all(any(x == t for x in it) for t in p['toks'])
    if k == 'hash':
        h = zlib.crc32(('\x00'.join(toks) + '\x01' + str(p['salt'])).encode(
            'utf-8', 'replace')) / 2**32
        return h < p['p']
    if k == 'wf':
        return well_formed(toks)
    if k == 'golden':
        return reftok.digest(toks) == p['dig']
    if k == 'near':
        # the candidate stays in a small neighbourhood of the original input:
        # token multisets differ by at most m tokens (an adversary that keeps
        # the structure and accepts every small rewrite in either direction)
        import collections
        a = ctx.get('cnt')
        if a is None:
            a = ctx['cnt'] = collections.Counter(toks)
        b = _NEAR_CACHE.get(id(p))
        if b is None:
            if len(_NEAR_CACHE) > 64:
                _NEAR_CACHE.clear()
            b = _NEAR_CACHE[id(p)] = collections.Counter(p['toks'])
        if abs(len(toks) - len(p['toks'])) > p.get('len_tol', 10**9):
            return False
        d = sum((a - b).values()) + sum((b - a).values())
        return d <= p['m']
    if k == 'member':
        # accepts exactly the members of a given set of inputs (the command
        # of the property's quantifier: "accepts exactly the members of a
        # would-be cycle")
        return reftok.digest(toks) in p['digs']
    if k == 'len_ge':
        return len(toks) >= p['n']
    if k == 'and':
        return all(ev_pred(q, toks, ctx) for q in p['a'])
    if k == 'or':
        return any(ev_pred(q, toks, ctx) for q in p['a'])
    if k == 'not':
        return not ev_pred(p['a'], toks, ctx)
    raise ValueError(f'unknown predicate {k}')


def well_formed(toks):
    """Balanced, and every top-level item is a list headed by a plain symbol."""
    depth = 0
    prev_open_top = False
    for t in toks:
        if t == '(':
            if prev_open_top:
                return False
            prev_open_top = depth == 0
            depth += 1
        elif t == ')':
            if prev_open_top:
                return False
            depth -= 1
            if depth < 0:
                return False
        else:
            if depth == 0:
                return False
            prev_open_top = False
    return depth == 0


_FRESH = re.compile(r'^x\d+__fresh$')


def canon(toks):
    """Commands treat all fresh-variable names of ddSMT alike (the number in
    ``x<n>__fresh`` is an allocation artefact, not part of the proposal)."""
    if not any('__fresh' in t for t in toks):
        return toks
    return tuple('x__fresh' if _FRESH.match(t) else t for t in toks)


class CmdModel:

    def __init__(self, spec):
        self.spec = spec
        self.cache = {}
        self.canon = spec.get('canon_fresh', True)

    def classify(self, toks):
        if self.canon:
            toks = canon(toks)
        d = toks
        c = self.cache.get(d)
        if c is None:
            ctx = {}
            c = self.spec['default']
            for pred, cls in self.spec['rules']:
                if ev_pred(pred, toks, ctx):
                    c = cls
                    break
            if len(self.cache) < 50000:
                self.cache[d] = c
        return c

    def outcome_of_class(self, c):
        k = self.spec['classes'][c]
        return Outcome(c, k['exit'], k['out'], k['err'], tuple(k['beh']))

    def __call__(self, content, missing=False):
        if missing:
            k = self.spec['classes'].get('nofile')
            if k is None:
                return Outcome('nofile', 2, '', 'cannot open file\n',
                               ('normal', 0.01))
            return self.outcome_of_class('nofile')
        toks = reftok.tokenize(content)
        return self.outcome_of_class(self.classify(toks))

    def on_tokens(self, toks):
        return self.outcome_of_class(self.classify(tuple(toks)))


# ---------------------------------------------------------------------------
# generators
# ---------------------------------------------------------------------------

OUTS = ['bug\n', 'sat\n', 'unsat\n', 'bug\nextra\n', '', 'unknown\n']
ERRS = ['', 'error: assertion failed\n', 'warning\n',
        'error: assertion failed\nat foo.c:12\n']
EXITS = [0, 1, 3, 134, -6, -11]


def interesting_tokens(toks, rng, k):
    """Pick up to k distinct non-parenthesis tokens of the input."""
    cand = sorted({t for t in toks if t not in '()'})
    rng.shuffle(cand)
    return cand[:k]


def gen_base_pred(rng, toks, style=None):
    """A predicate that holds on the original token sequence ``toks``."""
    style = style or rng.choice(
        ['contains', 'contains', 'count', 'hash', 'subseq', 'mixed', 'mixed'])
    words = [t for t in toks if t not in '()']
    if not words:
        return {'k': 'true'}
    if style == 'contains':
        return {
            'k': 'contains',
            'toks': interesting_tokens(toks, rng, rng.choice([1, 1, 2, 3]))
        }
    if style == 'count':
        t = rng.choice(words)
        n = toks.count(t)
        return {'k': 'count', 'tok': t, 'n': rng.randint(1, max(1, n))}
    if style == 'subseq':
        idx = sorted(rng.sample(range(len(words)),
                                min(len(words), rng.choice([2, 3]))))
        return {'k': 'subseq', 'toks': [words[i] for i in idx]}
    if style == 'hash':
        return {
            'k': 'or',
            'a': [{
                'k': 'golden',
                'dig': reftok.digest(toks)
            }, {
                'k': 'hash',
                'p': rng.choice([0.05, 0.15, 0.3, 0.5]),
                'salt': rng.randrange(1 << 30)
            }]
        }
    # mixed: structural core and a sparse hash on top (non-monotone)
    core = gen_base_pred(rng, toks, rng.choice(['contains', 'count', 'subseq']))
    return {
        'k': 'or',
        'a': [{
            'k': 'golden',
            'dig': reftok.digest(toks)
        }, {
            'k': 'and',
            'a': [
                core, {
                    'k': 'hash',
                    'p': rng.choice([0.3, 0.5, 0.8]),
                    'salt': rng.randrange(1 << 30)
                }
            ]
        }]
    }


def std_classes(rng, dur=None):
    d = dur if dur is not None else rng.choice([0.01, 0.02, 0.05])
    bug_exit = rng.choice([3, 1, 134, -6, -11, 0])
    classes = {
        'bug': {
            'exit': bug_exit,
            'out': rng.choice(['bug\n', 'unsat\n', '']),
            'err': rng.choice(['', 'error: assertion failed\n']),
            'beh': ['normal', d]
        },
        'ok': {
            'exit': 0 if bug_exit != 0 else 1,
            'out': 'sat\n',
            'err': '',
            'beh': ['normal', d]
        },
        'perr': {
            'exit': 2,
            'out': '',
            'err': '(error "parse error")\n',
            'beh': ['normal', d / 2]
        },
    }
    return classes


def gen_model(rng, toks, style=None, require_wf=None, dur=None):
    """Standard two/three-class model: 'bug' on the original input."""
    pred = gen_base_pred(rng, toks, style)
    rules = []
    if require_wf is None:
        require_wf = rng.random() < 0.3
    if require_wf and well_formed(toks):
        rules.append([{'k': 'not', 'a': {'k': 'wf'}}, 'perr'])
    rules.append([pred, 'bug'])
    return {'rules': rules, 'default': 'ok', 'classes': std_classes(rng, dur)}


def golden_class(spec, toks):
    return CmdModel(spec).classify(tuple(toks))


def gen_model_multi(rng, toks, dur=None):
    """Model with a colliding outcome alphabet: classes that share the exit
    code but differ in one stream only, streams that contain the golden stream
    as a substring, a class that differs in the exit code only."""
    d = dur if dur is not None else rng.choice([0.01, 0.02, 0.05])
    ex = rng.choice([0, 1, 3, 134, -6])
    out = rng.choice(['bug\n', 'unsat\n', 'sat\nbug\n', ''])
    err = rng.choice(['', 'error: assertion failed\n', 'warn\n'])
    beh = ['normal', d]
    r2 = random.Random(hash_seed(toks, ex, out, err, 'bytes'))
    raw = r2.random() < 0.2
    if raw:
        # the command prints bytes that are not valid UTF-8 (lone surrogates
        # stand for them): Latin-1 text, binary data
        if r2.random() < 0.5:
            out += 'caf\udce9 \udcff\n'
        else:
            err += 'r\udce9sum\udce9\n'
    longout = r2.random() < 0.06
    if longout:
        # a command that prints a long trace (more than a pipe buffer, more
        # than 64 KiB) before the part that matters
        trace = 'trace: step done, nothing to report here\n' * 1800
        if r2.random() < 0.5:
            out = trace + out
        else:
            err = trace + err
    classes = {
        'bug': {'exit': ex, 'out': out, 'err': err, 'beh': beh},
        # stdout contains the golden stdout but is longer
        'out_superset': {'exit': ex, 'out': 'pre\n' + out + 'post\n',
                         'err': err, 'beh': beh},
        # stderr contains the golden stderr but is longer
        'err_superset': {'exit': ex, 'out': out,
                         'err': err + 'at line 3\n', 'beh': beh},
        'out_differs': {'exit': ex, 'out': 'other\n', 'err': err,
                        'beh': beh},
        'err_differs': {'exit': ex, 'out': out, 'err': 'different\n',
                        'beh': beh},
        'exit_differs': {'exit': ex + 1 if ex >= 0 else -11, 'out': out,
                         'err': err, 'beh': beh},
        'streams_swapped': {'exit': ex, 'out': err, 'err': out, 'beh': beh},
        # the same lines with other line ends (CR LF): different streams
        'line_ends_differ': {'exit': ex, 'out': out.replace('\n', '\r\n'),
                             'err': err.replace('\n', '\r\n'), 'beh': beh},
        'ok': {'exit': 0 if ex != 0 else 1, 'out': 'sat\n', 'err': '',
               'beh': beh},
        'perr': {'exit': 2, 'out': '', 'err': '(error "parse error")\n',
                 'beh': ['normal', d / 2]},
    }
    names = ['out_superset', 'err_superset', 'out_differs', 'err_differs',
             'exit_differs', 'streams_swapped']
    rng.shuffle(names)
    if longout:
        # the same long trace, another end
        classes['tail_differs'] = {
            'exit': ex,
            'out': (out[:-4] + 'xyz\n') if out.startswith('trace:') else out,
            'err': (err[:-4] + 'xyz\n') if err.startswith('trace:') else err,
            'beh': beh}
        names.insert(0, 'tail_differs')
    if raw:
        # the same text with another undecodable byte: different streams
        classes['bytes_differ'] = {
            'exit': ex, 'out': out.replace('\udce9', '\udce8'),
            'err': err.replace('\udce9', '\udce8'), 'beh': beh}
        names.insert(0, 'bytes_differ')
    if (out or err) and random.Random(hash_seed(toks, ex, out, err)).random() < 0.3:
        names.insert(0, 'line_ends_differ')
    rules = [[{'k': 'golden', 'dig': reftok.digest(toks)}, 'bug']]
    for n in names[:rng.choice([2, 3, 4, 6])]:
        rules.append([{
            'k': 'hash',
            'p': rng.choice([0.1, 0.2, 0.3]),
            'salt': rng.randrange(1 << 30)
        }, n])
    rules.append([gen_base_pred(rng, toks, rng.choice(
        ['contains', 'count', 'subseq', 'hash'])), 'bug'])
    return {'rules': rules, 'default': 'ok', 'classes': classes}


def hash_seed(*objs):
    import hashlib
    return int.from_bytes(hashlib.blake2b(repr(objs).encode(),
                                          digest_size=8).digest(), 'big')


def gen_compare_opts(rng, golden, cc=False):
    """Comparison options that the golden outcome (exit, out, err) satisfies."""
    opts = []
    sfx = '-cc' if cc else ''

    def sub(s):
        s2 = s.strip('\n')
        if not s2:
            return None
        a = rng.randrange(len(s2))
        b = rng.randrange(a + 1, len(s2) + 1)
        return s2[a:b]

    k = rng.random()
    if cc:
        if k < 0.3:
            opts.append('--ignore-output-cc')
        if rng.random() < 0.3 and sub(golden[1]):
            opts += ['--match-out-cc', sub(golden[1])]
        if rng.random() < 0.3 and sub(golden[2]):
            opts += ['--match-err-cc', sub(golden[2])]
        # a match string the golden cross-check run does not satisfy (nothing
        # checks that at start-up, unlike for the main command): candidates
        # whose stream merely equals the golden one must be rejected
        r2 = random.Random(hash_seed(golden, opts))
        if r2.random() < 0.2:
            which = r2.choice([1, 2])
            alphabet = [x.strip('\n') for x in (OUTS if which == 1 else ERRS)
                        if x.strip('\n')]
            foreign = [x for x in alphabet if x not in (golden[which] or '')]
            flag = '--match-out-cc' if which == 1 else '--match-err-cc'
            if foreign and flag not in opts:
                opts += [flag, r2.choice(foreign)]
        return opts
    if k < 0.2:
        opts.append('--ignore-output')
    else:
        if rng.random() < 0.25:
            opts.append('--ignore-out')
        if rng.random() < 0.25:
            opts.append('--ignore-err')
    if rng.random() < 0.35 and sub(golden[1]):
        opts += ['--match-out', sub(golden[1])]
    if rng.random() < 0.35 and sub(golden[2]):
        opts += ['--match-err', sub(golden[2])]
    return opts
