"""Stub conformance (informational; real time, real processes).

1. process stub: the behaviours SimProc models are observed on a real
   ``subprocess``: TimeoutExpired from communicate, returncode still None
   after kill() until the child is reaped, -9 afterwards, SIGKILL at the hard
   RLIMIT_CPU when soft == hard (via resource.prlimit), address-space limit.
2. whole system, sequential path: the same (input, command model, options with
   -j 1, no id-dependent mutator) is run once for real (``python -m ddsmt`` in
   a subprocess, real multiprocessing.Pool, a real executable that evaluates
   the same command model) and once in the simulator; the output files must be
   byte-identical and the exit status equal.

Nothing here decides a property; the result is written to
/verif/conformance_report.json and printed.
"""
import json
import os
import random
import resource
import shutil
import signal
import stat
import subprocess
import sys
import tempfile
import time

HERE = os.path.dirname(os.path.abspath(__file__))
VERIF = os.path.dirname(HERE)
REPO = os.environ.get('DDSMT_SIM_REPO', '/repo')

SOLVER = '''#!{py}
import json, sys
sys.path.insert(0, {verif!r})
from dst import gen_cmd
spec = json.load(open({spec!r}))
o = gen_cmd.CmdModel(spec)(open(sys.argv[-1]).read())
sys.stdout.write(o.out)
sys.stderr.write(o.err)
sys.exit(o.exit if o.exit >= 0 else 128 - o.exit)
'''


def process_stub():
    res = {}
    p = subprocess.Popen(['sleep', '30'], stdout=subprocess.PIPE,
                         stderr=subprocess.PIPE)
    try:
        p.communicate(timeout=0.2)
        res['timeout_expired'] = False
    except subprocess.TimeoutExpired:
        res['timeout_expired'] = True
    p.kill()
    res['returncode_none_right_after_kill'] = p.returncode is None
    p.wait()
    res['returncode_after_wait'] = p.returncode
    # CPU limit, soft == hard -> SIGKILL
    p = subprocess.Popen([sys.executable, '-c', 'while True: pass'],
                         stdout=subprocess.PIPE, stderr=subprocess.PIPE)
    if hasattr(resource, 'prlimit'):
        resource.prlimit(p.pid, resource.RLIMIT_CPU, (1, 1))
        try:
            p.communicate(timeout=10)
        except subprocess.TimeoutExpired:
            p.kill()
            p.wait()
        res['cpu_limit_returncode'] = p.returncode
    else:
        p.kill()
        p.wait()
        res['cpu_limit_returncode'] = 'no prlimit'
    res['as_modelled'] = (res['timeout_expired']
                          and res['returncode_none_right_after_kill']
                          and res['returncode_after_wait'] == -signal.SIGKILL
                          and res['cpu_limit_returncode'] in (-9, 'no prlimit'))
    return res


def whole_system(n=6, seed=0):
    sys.path.insert(0, VERIF)
    from dst import sim, workload, reftok
    out = []
    wd = tempfile.mkdtemp(prefix='dst-conf-')
    try:
        for i in range(n):
            rng = random.Random(f'conf/{seed}/{i}')
            spec = workload.base_spec(
                rng, jobs=(1, ), small=True,
                model_style=rng.choice(['contains', 'count', 'subseq']),
                out_modes=('', '--pretty-print', '--wrap-lines'))
            spec['opts'] = [o for o in spec['opts'] if o not in ('-v', '-vv', '-q')]
            spec['opts'] += ['--no-introduce-fresh-variables']
            spec['ext'] = '.smt2'
            spec['cmd_args'] = []
            for c in spec['model']['classes'].values():
                if c['exit'] < 0:
                    c['exit'] = 3  # a shell cannot exit with a signal status
            # simulated
            r = sim.execute(spec)
            sim_out = r.final_out
            # real
            d = os.path.join(wd, str(i))
            os.makedirs(d)
            specf = os.path.join(d, 'model.json')
            json.dump(spec['model'], open(specf, 'w'))
            solver = os.path.join(d, 'solver.py')
            with open(solver, 'w') as f:
                f.write(SOLVER.format(py=sys.executable, verif=VERIF, spec=specf))
            os.chmod(solver, 0o755)
            inf = os.path.join(d, 'in.smt2')
            outf = os.path.join(d, 'out.smt2')
            open(inf, 'w').write(spec['input'])
            t0 = time.time()
            env = dict(os.environ, PYTHONPATH=REPO, PYTHONHASHSEED='0',
                       TMPDIR=d)
            pr = subprocess.run([sys.executable, '-m', 'ddsmt'] + spec['opts'] +
                                [inf, outf, solver], cwd=REPO, env=env,
                                capture_output=True, text=True, timeout=600)
            real_out = open(outf, 'rb').read() if os.path.exists(outf) else None
            left = [x for x in os.listdir(d) if x.startswith('ddsmt-')]
            out.append({
                'opts': spec['opts'],
                'real_status': pr.returncode,
                'sim_status': r.status,
                'outputs_identical': real_out == sim_out,
                'tmpdir_left_by_real_run': left,
                'real_wall_s': round(time.time() - t0, 2),
                'output': (real_out or b'').decode(errors='replace')[:200],
                'sim_output': (sim_out or b'').decode(errors='replace')[:200]
                if real_out != sim_out else None,
            })
    finally:
        shutil.rmtree(wd, ignore_errors=True)
    return out


def main(argv):
    n = int(argv[0]) if argv else 6
    rep = {'process_stub': process_stub(), 'whole_system': whole_system(n)}
    ok = rep['process_stub']['as_modelled'] and all(
        x['outputs_identical'] and x['real_status'] == x['sim_status']
        and not x['tmpdir_left_by_real_run'] for x in rep['whole_system'])
    rep['conforms'] = ok
    with open(os.path.join(VERIF, 'conformance_report.json'), 'w') as f:
        json.dump(rep, f, indent=1)
    print(f"[dst] conformance: process stub as modelled: "
          f"{rep['process_stub']['as_modelled']} {rep['process_stub']}")
    for x in rep['whole_system']:
        print(f"[dst] conformance: real vs simulated {x['opts']}: "
              f"identical={x['outputs_identical']} status "
              f"{x['real_status']}/{x['sim_status']} ({x['real_wall_s']}s real)")
    print(f'[dst] conformance: {"OK" if ok else "MISMATCH (informational)"}')
    return 0
