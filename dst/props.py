"""Common frame of the per-property checks.

A *case* is a JSON-able dict {'prop': id, 'runs': [spec, ...], ...}; running a
case executes its simulated run(s) and evaluates the property's oracle over the
recorded history.  ``Verdict`` carries violations (each with a class and a
signature used for known-finding matching), non-triviality and reach probes.
"""
import collections

from . import reftok
from . import refrule
from . import sim


class Verdict:

    def __init__(self):
        self.violations = []
        self.nontrivial = False
        self.key = None  # distinctness key
        self.probes = collections.Counter()
        self.faults = collections.Counter()
        self.sample = None
        self.evaluations = 1
        self.sim_time = 0.0
        self.steps = 0
        self.aborted = None  # outcome string if the run did not complete
        self.runs = 0
        self.digests = []
        self.extra = {}

    def violate(self, cls, sig, msg, **detail):
        self.violations.append({
            'cls': cls,
            'sig': sig,
            'msg': msg,
            'detail': detail
        })

    def absorb(self, res):
        """Account a simulated run."""
        self.runs += 1
        self.sim_time += res.sim_time
        self.steps += res.steps
        self.digests.append(res.trace_digest)
        for k, v in res.rec.counters.items():
            if k.startswith('fault.'):
                self.faults[k[6:]] += v
            else:
                self.probes[k] += v
        if res.switches:
            self.faults['context_switch'] += res.switches
        if res.rec.main_nyield:
            self.probes['main_yield_points'] += res.rec.main_nyield


class Prop:
    id = None
    title = ''
    level = 'exploration'
    budget = {}
    assumptions = [
        'the stubs model multiprocessing.Pool / Manager / subprocess / fork '
        'as described in DESIGN.md 2.4; worker death, spawn start method and '
        'SIGINT delivery to workers are not modelled',
        'commands are deterministic functions of the reference token '
        'sequence of the file they read',
        'sampling, not enumeration: a clean batch is evidence, not proof',
    ]

    def gen(self, rng, tier):
        raise NotImplementedError

    def run(self, case):
        raise NotImplementedError

    # rule text for the evidence file
    rule = ''
    real_components = [
        'ddsmt.__main__/cli/options (CLI, option parsing)',
        'ddsmt.nodeio (parser, renderers)', 'ddsmt.nodes', 'ddsmt.smtlib',
        'ddsmt.mutators*', 'ddsmt.strategy_ddmin', 'ddsmt.strategy_hierarchical',
        'ddsmt.checker', 'ddsmt.tmpfiles', 'pickle transport of tasks/results',
        'real files in a per-run sandbox under /dev/shm'
    ]
    stub_components = [
        'multiprocessing.Pool (SimPool: workers, task feeder thread, bounded '
        'look-ahead queue, completion order)', 'multiprocessing.Manager().Event',
        'subprocess.Popen (SimProc driven by a command model)',
        'resource.prlimit/setrlimit', 'time (simulated clock)',
        'os.getpid/threading.get_ident in tmpfiles', 'fork (module-state copy)',
        'signals (SIGINT as KeyboardInterrupt at a yield point, SIGKILL as '
        'abandoning the run)',
        'the shared node-id counter (multiprocessing.Value: SimCounter)',
        'threading.Thread/Lock/Event and concurrent.futures (threads started '
        'by the program are actors of their simulated process; unused by the '
        'unchanged tree)'
    ]


# ---------------------------------------------------------------------------
# helpers over a Result
# ---------------------------------------------------------------------------


def golden_runs(res):
    """(golden, golden_cc) as rule tuples, from the invocations on the input
    file itself; None if not run."""
    g = gcc = None
    inp = None
    for d in res.rec.inv:
        if d['file'] and d['file'].startswith('$SB/in'):
            r = run_tuple(d)
            if d['which'] == 'cc' or (d['which'] is None and g is not None):
                if gcc is None:
                    gcc = r
            elif g is None:
                g = r
    return g, gcc


def run_tuple(d):
    if d['timed_out']:
        return refrule.TIMEOUT
    if d.get('returncode') is None and d['outcome'] is None:
        return refrule.TIMEOUT
    rc = d.get('returncode')
    if d['killed'] and d.get('done_seq') is None:
        return refrule.TIMEOUT
    if rc is not None and d['outcome'] is not None and rc != d['outcome'][0]:
        # died from a limit (kernel kill): exit code as seen by ddSMT
        return (rc, '', '')
    return tuple(d['outcome'])


def completed(res):
    return res.outcome in ('returned', 'sysexit') and res.exc is None


def out_tokens(res):
    if res.final_out is None:
        return None
    return reftok.tokenize(res.final_out.decode(errors='replace'))


def accepted_file_digests(res, cfg):
    """Digests (reference tokens of the file content actually read) of all
    candidates whose check the reference rule accepts.  Groups invocations by
    the probe's check record when available, else by (actor, file, adjacency)."""
    g, gcc = golden_runs(res)
    acc = {}
    inv = res.rec.inv
    cands = [d for d in inv if not (d['file'] or '').startswith('$SB/in')]
    # group: a main-command invocation and the cross-check invocation of the
    # same process on the same file that belongs to the same check (probe), or
    # - without the probe - lies between this and the neighbouring
    # main-command invocations of that process.  The two runs may be started
    # in either order and by different threads of the process.
    def root(d):
        return str(d['actor']).split('.')[0]

    mains = [d for d in cands if d['which'] != 'cc']
    ccs = [d for d in cands if d['which'] == 'cc']
    used = set()
    by_root = collections.defaultdict(list)
    for d in mains:
        by_root[root(d)].append(d['idx'])
    for d in mains:
        run = run_tuple(d)
        run_cc = None
        d_cc = None
        if gcc is not None:
            idxs = by_root[root(d)]
            p = idxs.index(d['idx'])
            lo = idxs[p - 1] if p > 0 else -1
            hi = idxs[p + 1] if p + 1 < len(idxs) else float('inf')
            best = None
            for e in ccs:
                if e['idx'] in used or root(e) != root(d) or \
                        e['file'] != d['file']:
                    continue
                if d.get('check') is not None and e.get('check') is not None:
                    if e['check'] != d['check']:
                        continue
                elif not (lo < e['idx'] < hi):
                    continue
                if best is None or abs(e['idx'] - d['idx']) < abs(
                        best['idx'] - d['idx']):
                    best = e
            if best is not None:
                used.add(best['idx'])
                run_cc = run_tuple(best)
                d_cc = best
        ok = False
        if g is not None and d['dig'] is not None:
            ok = refrule.accepts(cfg, g, run, gcc, run_cc)
            if ok and d_cc is not None and d_cc['dig'] != d['dig']:
                ok = False  # the two commands did not see the same candidate
        if ok:
            acc.setdefault(d['dig'], d['idx'])
    return acc


def max_retests(rec):
    """Largest number of completed checks of one candidate text between two
    consecutive adoptions (output writes): (count, digest).  A strategy that
    keeps testing without adopting anything tests the same few candidates
    again and again."""
    bounds = sorted(w.get('seq0', 0) for w in rec.writes)
    import bisect
    cnt = collections.Counter()
    for c in rec.checks:
        if c.get('verdict') is None and c.get('seq1') is None:
            continue
        epoch = bisect.bisect_right(bounds, c['seq0'])
        cnt[(epoch, c['dig'])] += 1
    if not cnt:
        return 0, None
    (ep, dig), n = cnt.most_common(1)[0]
    return n, dig


def retest_bucket(n):
    for b in (5, 10, 20, 40, 80, 160):
        if n <= b:
            return f'<={b}'
    return '>160'


# twice the number of passes is about 20; measured maximum on the unchanged
# tree: 5
IDLE_ROUNDS_BOUND = 40


def max_idle_rounds(rec):
    """Longest sequence of consecutive hierarchical rounds (constructions of
    a Producer) that were all generated from the same input, i.e. without an
    adoption in between.  A pass makes at most two such rounds (the sweep
    that finds nothing, or the "Starting over" sweep), so a run makes at most
    2 x (number of passes)."""
    best = cur = 0
    last = None
    if {r['kind'] for r in rec.rounds} - {'Producer', 'TaskGenerator'}:
        # the classes were renamed and the generic probe is in use: ddmin's
        # task generators (many per input, legitimately) cannot be told from
        # hierarchical rounds - the rule stays silent
        return 0
    for r in rec.rounds:
        if r['kind'] != 'Producer':
            continue
        if r['dig'] == last:
            cur += 1
        else:
            cur = 1
            last = r['dig']
        best = max(best, cur)
    return best
