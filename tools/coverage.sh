#!/bin/sh
# coverage.sh <budget_s> [props...]: line coverage of /repo/ddsmt reached by the
# simulated runs of each check (one worker interpreter per check under
# coverage.py, C tracer; informational - shows which code the workloads never reach)
B=${1:-40}; shift
PROPS=${*:-C01 C02 C03 C04 C05 C06 C09 C10 C13 C14 C18}
D=/dev/shm/cov; rm -rf $D; mkdir -p $D
cat > $D/rc <<RC
[run]
branch = False
parallel = True
concurrency = thread
data_file = $D/data
source = ${DDSMT_SIM_REPO:-/repo}/ddsmt
omit = */tests/*
RC
i=0
for p in $PROPS; do
  PYTHONHASHSEED=0 PYTHONDONTWRITEBYTECODE=1 PYTHONUTF8=1 DDSMT_SIM_REPO=${DDSMT_SIM_REPO:-/repo} \
   /venv/bin/python -m coverage run --rcfile=$D/rc dst/cli.py worker $p quick $i 16 ${VERIF_SEED:-0} $B 100000 $D/$p.json > $D/$p.log 2>&1 &
  i=$((i+1))
done
wait
/venv/bin/python -m coverage combine --rcfile=$D/rc -q
/venv/bin/python -m coverage report --rcfile=$D/rc -m 2>&1 | grep -v conda
