#!/bin/sh
# sweep_thorough.sh <seed>... : every check at the thorough tier (full budget)
# under the given VERIF_SEEDs; evidence/replays go to /dev/shm
for s in "$@"; do for p in C01 C02 C03 C04 C05 C06 C09 C10 C13 C14 C18; do
  echo "=== $p thorough VERIF_SEED=$s"
  VERIF_SEED=$s DST_NO_MINIMISE=1 DST_OUT_DIR=/dev/shm/sweep-T-$p-$s /venv/bin/python dst/cli.py check $p --tier thorough 2>&1 | grep -v conda | grep "^\[dst\]\|VIOLATION\|^  C\|KNOWN\|HARNESS" | cut -c1-260
done; done
