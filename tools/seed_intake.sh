#!/bin/sh
# seed_intake.sh <PROP> <name> <worktree> [budget] [more props]: confirm a
# sub-agent's change in its worktree, keep it under seeded/<name>, run the
# check(s) against a scratch copy with the change
P=$1; N=$2; WT=$3; B=${4:-35}; MORE=$5
cd /verif
tools/verify_seeded.sh $WT 2>&1 | grep -v conda | grep "PATCH MISMATCH\|patch.diff matches\|passed\|failed\|demo W"
tools/import_seeded.sh $P $N $WT > /dev/null
/venv/bin/python dst/mutants.py --budget $B --prop $P${MORE:+,$MORE} seeded/$N/patch.diff 2>&1 | grep -v conda | cut -c1-900
