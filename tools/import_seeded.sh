#!/bin/sh
# import_seeded.sh <PROP> <name> <worktree>: keep a confirmed seeded change
P=$1; N=$2; WT=$3
D=/verif/seeded/$N
mkdir -p $D
cp -r $WT/_seeded/. $D/
rm -rf $D/__pycache__ $D/.foreign* $D/.pytest_cache
(echo "# property: $P"; echo "# what: seeded by an independent sub-agent, see NOTES.md"; cat $WT/_seeded/patch.diff) > $D/patch.diff
echo imported $D; ls $D
