#!/bin/sh
# sweep_all.sh <budget_s> <seed>... : all checks under several VERIF_SEEDs
B=$1; shift
for s in "$@"; do for p in C01 C02 C03 C04 C05 C06 C09 C10 C13 C14 C18; do ./tools/sweep.sh $p $B $s; done; done
