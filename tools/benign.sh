#!/bin/sh
# benign.sh <budget_s> <patch.diff>... : run every check against a scratch copy
# of /repo with a behaviour-preserving change applied; every check must exit 0
B=$1; shift
for p in "$@"; do
/venv/bin/python dst/mutants.py --budget $B --prop C01,C02,C03,C04,C05,C06,C09,C10,C13,C14,C18 $p 2>&1 | grep -v conda | /venv/bin/python -c "
import sys,json
bad=0
for l in sys.stdin:
    if '{' not in l: print(l.rstrip()); continue
    name,js=l.split(' ',1); d=json.loads(js)
    if 'error' in d: print(name,d); bad=1; continue
    for k,v in d.items():
        print(name,k,'exit',v['exit'],v['signatures'],v['summary'][:140],v['tail'][-300:])
        bad |= v['exit']!=0
sys.exit(bad)
" || echo "ALARM on a behaviour-preserving change: $p"
done
