#!/bin/sh
# final.sh: regenerate evidence/*.json by running every quick check in /verif
# against /repo (on a quiet machine), validate MANIFEST and evidence files.
cd /verif || exit 2
rc=0
for p in C01 C02 C03 C04 C05 C06 C09 C10 C13 C14 C18; do
  /venv/bin/python dst/cli.py check $p --tier quick 2>&1 | grep -v conda | grep "^\[dst\]\|VIOLATION\|KNOWN\|HARNESS" | cut -c1-200
  [ "${PIPESTATUS:-0}" != "0" ] && rc=1
done
python3-vt - <<'PY'
import json, jsonschema, glob
jsonschema.validate(json.load(open('/verif/MANIFEST.json')), json.load(open('/root/.vp/MANIFEST.schema.json')))
sch = json.load(open('/root/.vp/EVIDENCE.schema.json'))
for f in sorted(glob.glob('/verif/evidence/*.json')):
    jsonschema.validate(json.load(open(f)), sch)
print('manifest and', len(glob.glob('/verif/evidence/*.json')), 'evidence files valid')
PY
