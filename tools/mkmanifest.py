import json
claimed = {
 'C18': ('exploration', 'Each sampled -j 1 configuration is executed in 4 fresh interpreters with different PYTHONHASHSEED and in each twice under different scheduler seeds, personalities, virtual pid bases, command latencies, look-ahead capacities and line-level pre-emption (single worker, feeder thread and main still interleave); oracle: identical chain of adopted inputs, byte-identical output, identical status.', '4 (C18)', 'differential deterministic simulation across hash seeds, schedules and timings'),
 'C14': ('exploration', 'Trace monitor over whole simulated runs of the real CLI under swarm-random ordered option sequences and inputs with/without declarations of each theory: the mutator classes actually consulted are compared with a reference model of option processing and theory detection. The property has no schedule or fault in it (said plainly in DESIGN.md); the simulator contributes the whole-run trace across feeder thread and workers. Every third case is systematic (all single options, then ordered pairs). Known gap: a mutator that is scheduled in the first round of ddmin but dropped from later rounds is not detected (DESIGN 14, S98).', '4 (C14)', 'whole-run trace monitor under the simulator + reference model of option processing'),
 'C13': ('exploration', 'Seeded search over whole runs steered towards sharing-producing simplifications (histories of accepted steps of length >= 2); invariant checked at every construction of a new round and around every reduplicate call: node identities pairwise distinct, tokens unchanged, unique nodes keep their identity. The shared node-id counter is a seam (simulated shared value and lock, pre-emption at drawn accesses).', '4 (C13), 11, 14', 'whole-system deterministic simulation + state invariant at round boundaries'),
 'C10': ('exploration', 'Seeded search with command faults (hang, CPU spin, allocation blow-up, signal death, golden run exceeding the limit, match string absent) placed on pseudo-random candidates, on a simulated clock with simulated kernel limits; oracle: verdicts under the reference rule, kill-before-continue, no process left, no stall (deadlock detection), limits as documented, bounded simulated run time, status 1 before any candidate when the golden output lacks the match string.', '4 (C10)', 'deterministic simulation on a virtual clock with command-fault injection + deadlock detection'),
 'C04': ('exploration', 'Seeded search with fault injection over whole runs on well-formed, damaged (also nested deeper than the recursion limit) and unbalanced inputs through both launchers: usage errors, injected mutator exceptions (buggify), OSError on candidate files, SIGINT and MemoryError at main yield points; oracle: nothing but SystemExit leaves the launcher, exit status 0 iff completion, one-line diagnostics, and with a failing mutator M (injected at a drawn call site, or raising by itself on ill-formed input) the result still is a fixed point of all other enabled mutators.', '4 (C04)', 'deterministic simulation with fault injection (mutator exceptions, I/O errors, interrupts, usage errors) + exit-status and isolation oracles'),
 'C03': ('exploration', 'Seeded search over whole runs against adversarial (hash-sparse, non-monotone) command models with erasing mutators often disabled and inputs biased to the risky shapes; oracle: no adopted input is revisited, bounded number of adopted steps, and a deterministic per-step instruction budget (jump counter) (jumps and calls) that turns a non-terminating or exponential mutator step into a reproducible failure; neighbourhood adversaries, complexity-stress inputs (deep / wide terms), a corpus of would-be cycles and a growth corpus with a regression bound. Bounded liveness, by sampling; unbounded growth in general is not decided (DESIGN 11).', '4 (C03), 11', 'whole-system deterministic simulation with adversarial peers + history oracle (no revisit) + deterministic hang budget'),
 'C02': ('exploration', 'Seeded search over whole hierarchical/hybrid runs (schedules, -j, mutator subsets, non-monotone command models); after each run every proposal of every enabled mutator on the final in-memory input is re-enumerated with ddSMT\'s own mutators and judged by the command model under the reference rule.', '4 (C02)', 'whole-system deterministic simulation + exhaustive re-enumeration oracle on the final state'),
 'C09': ('exploration', 'Every individual check of sampled whole runs (scripted exit/stdout/stderr outcomes of command and cross-check command from a colliding alphabet x all comparison options x --unchecked) is compared with an independent statement of the documented rule; argv of every invocation is checked. Sampling of the option x outcome classes with a measured coverage table.', '4 (C09)', 'deterministic simulation with scripted command outcomes + reference-rule oracle per check'),
 'C01': ('exploration', 'Seeded search over whole simulated runs across input x command model x strategy x -j x output mode x comparison options x cross-check x completion order; the final output file is re-judged by the command model under an independent statement of the acceptance rule and matched against the set of candidate files actually read and accepted.', '4 (C01)', 'whole-system deterministic simulation + command-side log oracle'),
 'C05': ('exploration', 'Seeded search over interleavings of the real strategy loops (main thread, pool task-feeder thread, workers, command latencies, queue look-ahead, abort-flag visibility, line-level pre-emption); the chain oracle is evaluated over the recorded history of every run. Sampling, not enumeration.', '4 (C05)', 'whole-system deterministic simulation + history oracle (chain of adopted inputs)'),
 'C06': ('fault_enumeration', 'Per sampled run every crash/observation point inside every rewrite of the output file is enumerated: reader/SIGKILL observation at each boundary and one SIGINT (sometimes MemoryError) replay per boundary, plus a sample of points outside rewrites, disk faults (torn write / failing close with ENOSPC or EIO, optionally a disk that stays full) at sampled low-level operations, and SIGKILL followed by a second run on the files left behind; additionally main must not go back to waiting for running checks between adopting a result and having written it. Runs themselves are sampled; in the quick tier a wall-clock cap per case bounds how many points of a long run are replayed.', '3.1, 4 (C06)', 'deterministic simulation with crash-point enumeration (reader, SIGKILL, SIGINT, MemoryError, disk faults, crash-restart)'),
}
na = {
 'C07': 'pure function of a node list and two option bits: no schedule, clock, fault or peer to simulate (DESIGN 6)',
 'C08': 'pure function of a text (tokeniser conformance): not a simulation target (DESIGN 6)',
 'C11': 'pure function of (tree, replacement map): not a simulation target (DESIGN 6)',
 'C12': 'pure functions of trees; the cross-process clause reduces to a pickle round trip under fork (DESIGN 6)',
 'C15': 'pure function of (input, node, mutator): input generation, not simulation (DESIGN 6)',
 'C16': 'pure function of a term and symbol table; needs a typed generator as ground truth, nothing to schedule (DESIGN 6)',
 'C17': 'pure function of a term; needs an SMT-LIB evaluator, not a scheduler (DESIGN 6)',
}
import sys
pending = [p for p in ['C01','C02','C03','C04','C09','C10','C13','C14','C18'] if p not in claimed]
for extra in sys.argv[1:]:
    pass
checks = []
for pid,(lvl,text,ref,tech) in sorted(claimed.items()):
    checks.append({
      'property_id': pid,
      'quick_cmd': f'/venv/bin/python /verif/dst/cli.py check {pid} --tier quick',
      'thorough_cmd': f'/venv/bin/python /verif/dst/cli.py check {pid} --tier thorough',
      'evidence_file': f'/verif/evidence/{pid}.json',
      'replay_cmd_template': '/venv/bin/python /verif/dst/cli.py replay {path}',
      'engine': 'dst',
      'level_claimed': {'category': lvl, 'text': text, 'design_ref': ref},
      'level_note': 'Trusted base: the stubs in /verif/dst/seams.py (SimPool, SimEvent, SimProc, fork model, simulated clock) model multiprocessing/subprocess as described in DESIGN.md 2.4; the reference tokenizer and acceptance rule in /verif/dst; command models are deterministic functions of the token sequence. Threads the program starts itself (threading, concurrent.futures) become actors of the scheduler. Not modelled: worker death, spawn start method, SIGINT delivered to workers, partial output of a killed command.',
      'technique': tech,
    })
m = {
 'version': 1,
 'setup_cmd': '/venv/bin/python -m compileall -q /verif/dst && /venv/bin/python /verif/dst/cli.py selftest determinism 8',
 'hooks': {'guard': 'DDSMT_VERIF', 'enable': 'no hook in /repo is needed: every seam is a module attribute rebound by the launcher in /verif/dst (DESIGN.md 1)', 'baseline_off_cmd': 'cd /repo && /venv/bin/python -m pytest -ra -q -p no:cacheprovider --timeout=900', 'source_commits': [], 'add_only': True},
 'engines': [{'name': 'dst', 'path': '/verif/dst', 'serves_properties': sorted(claimed), 'kind_free_text': 'deterministic simulation with fault injection: seeded baton scheduler over real threads, simulated pool/manager/subprocess/clock/fork, crash-point enumeration, history oracles, choice-list replay and minimisation'}],
 'checks': checks,
 'not_applicable': [{'property_id': k, 'reason': v} for k,v in sorted(na.items())] + [{'property_id': p, 'reason': 'check under construction in this session (planned, see DESIGN.md 4); not claimed until it is registered here'} for p in pending],
 'notes': 'All checks import ddsmt from /repo (DDSMT_SIM_REPO overrides) in fresh interpreters with PYTHONHASHSEED=0, so they always run the current working tree. Exit 0 = held; 1 + VIOLATION line = unlisted violation; 2 + HARNESS-ERROR = harness could not exercise the system.',
}
json.dump(m, open('/verif/MANIFEST.json','w'), indent=1)
