#!/bin/sh
# verify_seeded.sh <worktree> : confirm a seeded change in its scratch worktree
# 1. patch.diff == source diff of the worktree  2. tests pass with the change
# 3. demo fails with the change  4. demo passes without it
WT=$1
cd $WT || exit 2
DEMO=$(ls _seeded/demo*.py _seeded/test_*.py 2>/dev/null | head -1)
echo "== worktree $WT demo $DEMO"
git status --short | grep -v _seeded
git diff -- ddsmt bin > /tmp/vs_cur.diff
if diff -q /tmp/vs_cur.diff _seeded/patch.diff >/dev/null; then echo "patch.diff matches tree"; else echo "PATCH MISMATCH"; diff /tmp/vs_cur.diff _seeded/patch.diff | head -20; fi
/venv/bin/python -m pytest -q -p no:cacheprovider 2>&1 | tail -1
timeout 600 /venv/bin/python $DEMO > /tmp/vs_with.log 2>&1; echo "demo WITH change: exit $?"
git apply -R _seeded/patch.diff || { echo "cannot revert"; exit 2; }
timeout 600 /venv/bin/python $DEMO > /tmp/vs_without.log 2>&1; echo "demo WITHOUT change: exit $?"
git apply _seeded/patch.diff
tail -3 /tmp/vs_with.log
