#!/bin/sh
# sweep.sh <prop> <budget_s> <seed>... : run a check under several VERIF_SEEDs,
# print only the summary / violation lines (for background soak runs)
P=$1; B=$2; shift 2
for s in "$@"; do
  echo "=== $P VERIF_SEED=$s budget=$B"
  VERIF_SEED=$s DST_BUDGET=$B DST_NO_MINIMISE=1 DST_OUT_DIR=${DST_OUT_DIR:-/dev/shm/sweep-$P-$s} /venv/bin/python dst/cli.py check $P --tier quick 2>&1 | grep -v conda | grep "^\[dst\]\|VIOLATION\|^  C\|KNOWN\|HARNESS" | cut -c1-260
done
